#!/usr/bin/env python3
"""Self-test of the runner: Kani works offline, a passing harness is parsed as pass, a reachability
twin (assert!(false)) is parsed as a failure. Run by bin/setup."""
import os, shutil, subprocess, sys, tempfile
sys.path.insert(0, os.path.dirname(os.path.abspath(__file__)))
import runner

def main():
    src = os.path.join(runner.VERIF, "harness", "selftest")
    d = os.path.join(runner.SCRATCH_ROOT, "selftest.%d" % os.getpid())
    shutil.rmtree(d, ignore_errors=True)
    os.makedirs(runner.SCRATCH_ROOT, exist_ok=True)
    shutil.copytree(src, d)
    try:
        env = dict(os.environ, CARGO_NET_OFFLINE="true")
        out = subprocess.run(["cargo", "kani"], cwd=d, env=env, stdout=subprocess.PIPE, stderr=subprocess.STDOUT, timeout=900).stdout.decode(errors="replace")
        parts = out.split("Checking harness ")
        ok = True
        seen = {}
        for p in parts[1:]:
            name = p.split("...")[0].strip()
            r = runner.parse_kani_output(p)
            seen[name] = r
        p = [v for k, v in seen.items() if k.endswith("selftest_pass")]
        f = [v for k, v in seen.items() if k.endswith("selftest_twin_must_fail")]
        if not p or p[0]["verdict"] != "SUCCESSFUL" or p[0]["failed"] or "SATISFIED" not in p[0]["covers"].values():
            print("selftest: passing harness not recognised"); ok = False
        if not f or f[0]["verdict"] != "FAILED" or not f[0]["failed"]:
            print("selftest: reachability twin not recognised as failure"); ok = False
        if not ok:
            print(out[-3000:])
            return 1
        print("selftest ok: kani offline, verdict parser, reachability twin")
        return 0
    finally:
        shutil.rmtree(d, ignore_errors=True)

if __name__ == "__main__":
    sys.exit(main())
