#!/usr/bin/env python3
"""Runner for the solver-based checks of libtw2 (Kani 0.68 / CBMC 6.11 / CaDiCaL).

check <ID> [--tier quick|thorough] [--harness SUBSTR] [--replay PATH] [--keep]

Every run copies /repo's working tree to a fresh scratch directory, compiles the
harnesses with the Kani compiler against that copy (so the goto programs are
regenerated from the current source), runs one CBMC query per harness and writes
evidence/<ID>.json.  Exit codes: 0 held, 1 violation (replayed natively),
2 counterexample that did not reproduce natively / UB-only, 3 inconclusive
(time or memory cap, solver error, vacuous harness, build failure).
"""
import argparse
import fcntl
import json
import os
import re
import resource
import shutil
import signal
import subprocess
import sys
import threading
import time

VERIF = os.path.dirname(os.path.dirname(os.path.abspath(__file__)))
REPO = os.environ.get("LIBTW2_REPO", "/repo")
SCRATCH_ROOT = os.environ.get("VERIF_SCRATCH", "/var/tmp/libtw2-verif")
CACHE = os.path.join(VERIF, ".cache")
TOTAL_MEM_GB = int(os.environ.get("VERIF_MEM_GB", "44"))
QUICK_CAP_S = 600
THOROUGH_CAP_S = 2400

HOOK_FILES = {
    # harness file (under harness/incrate) -> libtw2 source file carrying the hook
    "packer_lib.rs": "packer/src/lib.rs",
}


def log(msg):
    print(msg, flush=True)


# --------------------------------------------------------------------------------------
# plans


def load_plan(pid, name=None):
    with open(os.path.join(VERIF, "plans", (name or pid) + ".json")) as f:
        plan = json.load(f)
    assert plan["property"] == pid
    return plan


def select_harnesses(plan, tier, substr):
    out = []
    for h in plan["harnesses"]:
        t = h.get("tier", "quick")
        if tier == "quick" and t != "quick":
            continue
        # "heavy": harnesses that did not finish within this machine's time/memory budget when measured;
        # they are kept (and selectable with --tier heavy or --harness) but are not part of a registered tier
        if tier == "thorough" and t == "heavy" and not substr:
            continue
        if substr and substr not in h["name"]:
            continue
        out.append(h)
    return out


HDIR_OVERRIDE = [None]
_INFO_CACHE = {}


def harness_source_info(name):
    """unwind bound and source file of a harness, read from the harness sources (the scratch copy of
    the harness directory once it exists: it also holds generated files); memoised, because the
    evidence is written after the scratch copy has been removed"""
    if name in _INFO_CACHE:
        return _INFO_CACHE[name]
    r = _harness_source_info(name)
    if r["file"] is not None:
        _INFO_CACHE[name] = r
    return r


def _harness_source_info(name):
    hdir = HDIR_OVERRIDE[0] or os.path.join(VERIF, "harness", "incrate")
    if not os.path.isdir(hdir):
        hdir = os.path.join(VERIF, "harness", "incrate")
    for fn in sorted(os.listdir(hdir)):
        if not fn.endswith(".rs"):
            continue
        src = open(os.path.join(hdir, fn)).read()
        m = re.search(r"((?:#\[[^\]]*\]\s*)+)fn\s+" + re.escape(name) + r"\s*\(", src)
        if m:
            attrs = m.group(1)
            u = re.search(r"kani::unwind\((\d+)\)", attrs)
            stubs = re.findall(r"kani::stub\(([^)]*)\)", attrs)
            return {"file": fn, "unwind": int(u.group(1)) if u else None, "stubs": [s.strip() for s in stubs]}
    return {"file": None, "unwind": None, "stubs": []}


# --------------------------------------------------------------------------------------
# scratch copy


def make_scratch(tag):
    # deterministic path per property: crate metadata hashes (and hence artefact names in the cached
    # target directory) stay stable between runs; runs of one property are serialised by a lock
    d = os.path.join(SCRATCH_ROOT, tag)
    shutil.rmtree(d, ignore_errors=True)
    os.makedirs(d)
    repo = os.path.join(d, "repo")
    # no -t: fresh mtimes, so every workspace crate is recompiled from the current source
    subprocess.check_call(
        ["rsync", "-rl", "--exclude", "/target", "--exclude", "/.git", "--exclude", "/_old", REPO + "/", repo + "/"]
    )
    hdir = os.path.join(d, "harness")
    shutil.copytree(os.path.join(VERIF, "harness", "incrate"), hdir)
    shim = os.path.join(VERIF, "harness", "shim")
    if os.path.isdir(shim):
        for fn in os.listdir(shim):
            shutil.copy(os.path.join(shim, fn), hdir)
    return d, repo, hdir


def apply_transforms(plan, repo, hdir):
    done = []
    for t in plan.get("transforms", []):
        if t == "shim_boxed_slots":
            # variant of the container model whose slot array lives in a Box: a map (and hence a Snap)
            # is then a few words, like std's BTreeMap, so moving Snaps through VecDeque/Vec (C13) does
            # not copy the whole array
            p = os.path.join(hdir, "shim_btree.rs")
            s = open(p).read()
            for o, n in [("    slots: [Option<(K, V)>; SHIM_CAP],\n", "    slots: Box<[Option<(K, V)>; SHIM_CAP]>,\n"),
                         ("slots: [None, None, None, None],", "slots: Box::new([None, None, None, None]),")]:
                if s.count(o) != 1:
                    raise Inconclusive("source transform shim_boxed_slots: %r not found exactly once" % o)
                s = s.replace(o, n)
            open(p, "w").write(s)
            done.append("container model variant: slot array boxed (harness/shim/shim_btree.rs, scratch copy only)")
        elif t == "demo_scaled_buffers":
            # the demo writer/reader own several 64 KiB ArrayVec buffers, which keeps even their
            # construction out of reach; the tick logic and the message transform do not depend on the
            # buffer size, so they are decided with the constant scaled down to 128 bytes
            p = os.path.join(repo, "demo", "src", "format.rs")
            s = open(p).read()
            o, n = "pub const MAX_SNAPSHOT_SIZE: usize = 65536;\n", "pub const MAX_SNAPSHOT_SIZE: usize = 128;\n"
            if s.count(o) != 1:
                raise Inconclusive("source transform demo_scaled_buffers: line %r not found exactly once" % o)
            open(p, "w").write(s.replace(o, n))
            done.append("demo/src/format.rs: MAX_SNAPSHOT_SIZE 65536 -> 128 (buffer sizes of the demo writer/reader; scratch copy only)")
        elif t == "storage_inline_containers":
            # C13: VecDeque<StoredSnap> / Vec<Snap> of snapshot/src/storage.rs replaced by inline
            # fixed-capacity models (harness/shim/shim_deque.rs), mounted inside crate::verif_shim
            sp = os.path.join(hdir, "shim_btree.rs")
            open(sp, "a").write("\n" + open(os.path.join(hdir, "shim_deque.rs")).read())
            p = os.path.join(repo, "snapshot", "src", "storage.rs")
            s = open(p).read()
            for o, n in [("use std::collections::VecDeque;\n", "use crate::verif_shim::VecDeque;\n"),
                         ("    free: Vec<Snap>,\n", "    free: crate::verif_shim::SVec<Snap>,\n")]:
                if s.count(o) != 1:
                    raise Inconclusive("source transform storage_inline_containers: line %r not found exactly once" % o)
                s = s.replace(o, n)
            open(p, "w").write(s)
            done.append("snapshot/src/storage.rs: VecDeque<StoredSnap> and Vec<Snap> -> crate::verif_shim::{VecDeque,SVec} (inline fixed-capacity models, capacity 4); scratch copy only")
        elif t == "net_inline_resend_queue":
            # the resend queue (VecDeque<ResendChunk>, 2 KiB per element, heap-backed) of both
            # connection variants replaced by the inline fixed-capacity deque model (capacity 4)
            lp = os.path.join(repo, "net", "src", "lib.rs")
            open(lp, "a").write('\n#[cfg(kani)]\nmod verif_shim {\n    include!(concat!(env!("LIBTW2_VERIF_HARNESS"), "/shim_deque.rs"));\n}\n')
            for fn in ("connection.rs", "connection7.rs"):
                p = os.path.join(repo, "net", "src", fn)
                s = open(p).read()
                o = "use std::collections::VecDeque;\n"
                if s.count(o) < 1:
                    raise Inconclusive("source transform net_inline_resend_queue: %r not found in %s" % (o, fn))
                open(p, "w").write(s.replace(o, "use crate::verif_shim::VecDeque;\n", 1))
            done.append("net/src/connection{,7}.rs: VecDeque<ResendChunk> -> crate::verif_shim::VecDeque (inline fixed-capacity model, capacity 4; module mounted in the scratch copy of net/src/lib.rs); scratch copy only")
        elif t == "shim_cap_1":
            # container model with capacity 1 (C13: the world per tick is at most one item, a delta has
            # at most one update or one deletion): Snap/Delta values shrink to a few words
            p = os.path.join(hdir, "shim_btree.rs")
            s = open(p).read()
            for o, n in [("pub const SHIM_CAP: usize = 4;\n", "pub const SHIM_CAP: usize = 1;\n"),
                         ("slots: [None, None, None, None]", "slots: [None]")]:
                if s.count(o) != 1:
                    raise Inconclusive("source transform shim_cap_1: %r not found exactly once" % o)
                s = s.replace(o, n)
            open(p, "w").write(s)
            done.append("container model capacity 1 instead of 4 (harness/shim/shim_btree.rs, scratch copy only)")
        elif t == "snapshot_scaled_limits":
            # the 1024-item / 64 KiB limits need a 1024-entry map as pre-state, which is out of reach; the
            # limit *logic* is decided with the two constants scaled down to the capacity of the
            # container model (3 items / 48 bytes), everything else unchanged
            p = os.path.join(repo, "snapshot", "src", "snap.rs")
            s = open(p).read()
            for o, n in [("pub const MAX_SNAPSHOT_SIZE: usize = 64 * 1024; // 64 KB\n", "pub const MAX_SNAPSHOT_SIZE: usize = 48;\n"),
                         ("pub const MAX_SNAPSHOT_ITEMS: usize = 1024;\n", "pub const MAX_SNAPSHOT_ITEMS: usize = 3;\n")]:
                if s.count(o) != 1:
                    raise Inconclusive("source transform snapshot_scaled_limits: line %r not found exactly once" % o)
                s = s.replace(o, n)
            open(p, "w").write(s)
            done.append("snapshot/src/snap.rs: MAX_SNAPSHOT_ITEMS 1024 -> 3 and MAX_SNAPSHOT_SIZE 64 KiB -> 48 bytes (scaled limits; scratch copy only)")
        elif t == "snapshot_btree_shim":
            p = os.path.join(repo, "snapshot", "src", "snap.rs")
            s = open(p).read()
            old = [
                "use std::collections::btree_map;\n",
                "use std::collections::BTreeMap;\n",
                "use std::collections::BTreeSet;\n",
            ]
            new = [
                "use crate::verif_shim::btree_map;\n",
                "use crate::verif_shim::BTreeMap;\n",
                "use crate::verif_shim::BTreeSet;\n",
            ]
            old.append("        keys.sort_unstable_by_key(|&k| k as u32);\n")
            new.append("        crate::verif_shim::sort_keys_unsigned(keys);\n")
            for o, n in zip(old, new):
                if s.count(o) != 1:
                    raise Inconclusive("source transform snapshot_btree_shim: line %r not found exactly once" % o)
                s = s.replace(o, n)
            open(p, "w").write(s)
            done.append("snapshot/src/snap.rs: std::collections::{btree_map,BTreeMap,BTreeSet} -> crate::verif_shim (sorted array model, capacity 4) and keys.sort_unstable_by_key(|&k| k as u32) -> crate::verif_shim::sort_keys_unsigned (insertion sort); scratch copy only")
        else:
            raise Inconclusive("unknown transform " + t)
    return done


def check_hooks(plan, repo, harnesses):
    """every harness file must be mounted by its cfg(kani) hook in the scratch copy; computes the
    full module path of each harness (for --exact)"""
    mounts = {}
    out = subprocess.run(["grep", "-rl", "--include=*.rs", "LIBTW2_VERIF_HARNESS", repo], stdout=subprocess.PIPE).stdout.decode().split()
    for f in out:
        src = open(f).read()
        for m in re.finditer(r'(?:mod (\w+) \{\s*(?:use [^;]*;\s*)*)?include!\(concat!\(env!\("LIBTW2_VERIF_HARNESS"\), "/([\w.]+)"\)\);', src):
            rel = os.path.relpath(f, repo)
            parts = rel.split(os.sep)
            i = parts.index("src")
            mods = parts[i + 1:]
            mods[-1] = mods[-1][:-3]
            if mods[-1] in ("lib", "mod", "main"):
                mods = mods[:-1]
            if m.group(1):
                mods.append(m.group(1))
            mounts[m.group(2)] = "::".join(mods)
    for h in harnesses:
        info = harness_source_info(h["name"])
        if info["file"] is None:
            raise Inconclusive("harness %s not found in the harness directory" % h["name"])
        mfile = h.get("mount", info["file"])
        if mfile not in mounts:
            raise Inconclusive("harness file %s is not mounted by a cfg(kani) hook in the source tree" % mfile)
        h["_path"] = (mounts[mfile] + "::" if mounts[mfile] else "") + h["name"]


class Inconclusive(Exception):
    pass


# --------------------------------------------------------------------------------------
# running kani


def base_env(hdir):
    env = dict(os.environ)
    env["CARGO_NET_OFFLINE"] = "true"
    env["LIBTW2_VERIF_HARNESS"] = hdir
    env.pop("RUSTUP_TOOLCHAIN", None)
    env.pop("RUSTFLAGS", None)
    return env


KANI_COMMON = ["-Z", "stubbing", "-Z", "unstable-options"]


def target_dir(pid):
    d = os.path.join(CACHE, "target", pid)
    os.makedirs(d, exist_ok=True)
    return d


def codegen(repo, hdir, pkg, tdir, logdir, first_harness=None):
    """compile the package and its dependencies once before the per-harness runs start in parallel;
    restricted to one harness: goto binaries for all (150+) harnesses of a package are not needed here"""
    t0 = time.time()
    cmd = ["cargo", "kani", "-p", pkg, "--only-codegen", "--target-dir", tdir] + KANI_COMMON
    if first_harness:
        cmd += ["--harness", first_harness, "--exact"]
    lp = os.path.join(logdir, "build.%s.log" % pkg)
    with open(lp, "w") as lf:
        rc = subprocess.call(cmd, cwd=repo, env=base_env(hdir), stdout=lf, stderr=subprocess.STDOUT)
    return rc, time.time() - t0, lp


def _limits(mem_gb):
    def f():
        os.setsid()
        try:
            resource.setrlimit(resource.RLIMIT_STACK, (resource.RLIM_INFINITY, resource.RLIM_INFINITY))
        except Exception:
            pass
        lim = int(mem_gb * (1 << 30))
        resource.setrlimit(resource.RLIMIT_AS, (lim, lim))

    return f


BLOCK_RE = re.compile(r"^Check (\d+): (.*)\n((?:\t .*\n?)+)", re.M)


def parse_kani_output(text):
    res = {
        "checks": [],
        "n_checks": 0,
        "failed": [],
        "undetermined": [],
        "covers": {},
        "verdict": None,
        "verification_time_s": None,
        "error": None,
    }
    for m in BLOCK_RE.finditer(text):
        num, name, body = m.groups()
        st = re.search(r"- Status: (\w+)", body)
        de = re.search(r"- Description: \"(.*)\"", body)
        lo = re.search(r"- Location: (.*)", body)
        status = st.group(1) if st else "UNKNOWN"
        desc = de.group(1) if de else ""
        loc = lo.group(1) if lo else ""
        if ".cover." in name or status in ("SATISFIED", "UNSATISFIABLE"):
            res["n_covers"] = res.get("n_covers", 0) + 1
            res["covers"]["%s @ %s" % (desc, loc.split(" in function")[0].split("/")[-1])] = status
            continue
        res["n_checks"] += 1
        if status == "FAILURE":
            res["failed"].append({"check": name, "description": desc, "location": loc})
        elif status not in ("SUCCESS", "UNREACHABLE"):
            res["undetermined"].append({"check": name, "description": desc, "status": status})
    m = re.search(r"\*\* (\d+) of (\d+) failed", text)
    if m:
        res["summary_failed"], res["summary_total"] = int(m.group(1)), int(m.group(2))
        if not (res["n_checks"] <= res["summary_total"] <= res["n_checks"] + res.get("n_covers", 0)) or res["summary_failed"] != len(res["failed"]):
            res["error"] = "output parser disagrees with Kani's summary (%d/%d vs %d/%d)" % (
                len(res["failed"]), res["n_checks"], res["summary_failed"], res["summary_total"])
            res["parse_mismatch"] = True
    m = re.search(r"VERIFICATION:- (\w+)", text)
    if m:
        res["verdict"] = m.group(1)
    m = re.search(r"Verification Time: ([0-9.]+)s", text)
    if m:
        res["verification_time_s"] = float(m.group(1))
    m = re.search(r"CBMC failed with status (\d+)|CBMC timed out|error: .*", text)
    if m and res["verdict"] is None:
        res["error"] = m.group(0)
    return res


def resolve_unwindset(h, repo, hdir, tdir, logdir):
    """plan: "unwindset_fn": {"<substring of the demangled function name>[#k]": bound}. Loop ids carry
    crate hashes that depend on the build path, so they are looked up per run with cbmc --show-loops."""
    want = h.get("unwindset_fn")
    if not want:
        return {}
    # make the driver link the per-harness goto binary (<harness>.out); its own parser cannot read
    # cbmc's --show-loops output, so that run's outcome is ignored and cbmc is asked directly
    cmd = ["cargo", "kani", "-p", h["package"], "--harness", h["_path"], "--exact", "--target-dir", tdir] + KANI_COMMON + ["--cbmc-args", "--show-loops"]
    subprocess.run(cmd, cwd=repo, env=base_env(hdir), stdout=subprocess.DEVNULL, stderr=subprocess.DEVNULL, timeout=900)
    cands = []
    for root, _, files in os.walk(os.path.join(tdir, "kani")):
        for f in files:
            if re.search(r"\d+%s\.out$" % re.escape(h["name"]), f) and not f.endswith(".symtab.out"):
                cands.append(os.path.join(root, f))
    if not cands:
        raise Inconclusive("unwindset_fn: goto binary of %s not found" % h["name"])
    cands.sort(key=os.path.getmtime)
    out = subprocess.run(["cbmc", "--show-loops", cands[-1]], stdout=subprocess.PIPE, stderr=subprocess.STDOUT, timeout=900).stdout.decode(errors="replace")
    open(os.path.join(logdir, h["name"] + ".loops.log"), "w").write(out)
    loops = re.findall(r"^Loop (\S+):\n\s+file (.*?) line (\d+)(?: column \d+)? function (.*)$", out, re.M)
    res = {}
    for key, bound in want.items():
        sub, _, idx = key.partition("#")
        hits = [l for l in loops if sub in l[3] and (not idx or l[0].endswith("." + idx))]
        if not hits:
            raise Inconclusive("unwindset_fn: no loop matches %r in harness %s" % (key, h["name"]))
        for l in hits:
            res[l[0]] = bound
    return res


def run_harness(h, repo, hdir, tdir, logdir, cap_s):
    name = h["name"]
    mem = h.get("mem_gb", 4)
    h["_unwindset"] = dict(h.get("unwindset", {}))
    h["_unwindset"].update(resolve_unwindset(h, repo, hdir, tdir, logdir))
    cmd = ["cargo", "kani", "-p", h["package"], "--harness", h["_path"], "--exact", "--target-dir", tdir] + KANI_COMMON
    cbmc_args = list(h.get("cbmc_args", []))
    for loop, n in h["_unwindset"].items():
        cbmc_args += ["--unwindset", "%s:%d" % (loop, n)]
    if cbmc_args:
        cmd += ["--cbmc-args"] + cbmc_args
    lp = os.path.join(logdir, name + ".log")
    t0 = time.time()
    timed_out = False
    with open(lp, "w") as lf:
        p = subprocess.Popen(
            ["/usr/bin/time", "-f", "MAXRSS_KB=%M"] + cmd,
            cwd=repo,
            env=base_env(hdir),
            stdout=lf,
            stderr=subprocess.STDOUT,
            preexec_fn=_limits(mem),
        )
        try:
            p.wait(timeout=cap_s)
        except subprocess.TimeoutExpired:
            timed_out = True
            try:
                os.killpg(p.pid, signal.SIGKILL)
            except ProcessLookupError:
                pass
            p.wait()
    wall = time.time() - t0
    text = open(lp, errors="replace").read()
    res = parse_kani_output(text)
    res["name"] = name
    res["wall_s"] = round(wall, 1)
    res["timed_out"] = timed_out
    res["log"] = lp
    m = re.search(r"MAXRSS_KB=(\d+)", text)
    res["peak_rss_mb"] = int(m.group(1)) // 1024 if m else None
    res["rc"] = p.returncode
    return res


def classify(h, res):
    """-> (status, detail); status in pass, fail, inconclusive, vacuous"""
    if res["timed_out"]:
        return "inconclusive", "wall-clock cap hit"
    if res.get("parse_mismatch"):
        return "inconclusive", res["error"]
    if res["verdict"] is None:
        return "inconclusive", res["error"] or "no verdict (rc %s)" % res["rc"]
    if res["failed"]:
        if all("unwinding assertion" in f["description"] for f in res["failed"]) and not h.get("unwind_is_violation"):
            return "inconclusive", "unwind bound too small: " + "; ".join(sorted(set(f["check"] for f in res["failed"]))[:3])
        return "fail", "; ".join(sorted(set(f["description"] for f in res["failed"]))[:5])
    if res["undetermined"]:
        return "inconclusive", "undetermined/error checks: %d" % len(res["undetermined"])
    if res["verdict"] != "SUCCESSFUL":
        return "inconclusive", "verdict %s without failed checks (memory cap / solver error)" % res["verdict"]
    if res["n_checks"] == 0:
        return "inconclusive", "no checks parsed"
    optional = h.get("optional_covers", [])
    for c, st in res["covers"].items():
        if st != "SATISFIED" and not any(o in c for o in optional):
            return "vacuous", "cover not satisfied: " + c
    return "pass", ""


UB_MARKERS = (
    "dereference failure",
    "pointer NULL",
    "pointer invalid",
    "pointer outside",
    "dead object",
    "deallocated dynamic object",
    "misaligned",
    "invalid integer address",
    "pointer relation",
    "same object violation",
)


def only_ub(failed):
    return all(any(m in f["description"] for m in UB_MARKERS) for f in failed)


# --------------------------------------------------------------------------------------
# native replay through Kani's concrete playback


def replay_native(h, repo, hdir, tdir, logdir, pid, res):
    """Regenerate the counterexample as a unit test (concrete playback, in place in the scratch
    copy of the harness file) and run it natively with `cargo kani playback`.
    Returns (reproduced: bool|None, replay_path)"""
    name = h["name"]
    rdir = os.path.join(VERIF, "replays", pid)
    os.makedirs(rdir, exist_ok=True)
    rpath = os.path.join(rdir, name + ".json")
    record = {
        "property": pid,
        "harness": name,
        "package": h["package"],
        "failed_checks": res["failed"][:20],
        "kani_log": res["log"],
    }
    info = harness_source_info(name)
    hfile = os.path.join(hdir, info["file"])
    before = open(hfile).read()
    cmd = (
        ["cargo", "kani", "-p", h["package"], "--harness", h["_path"], "--exact", "--target-dir", tdir]
        + KANI_COMMON
        + ["-Z", "concrete-playback", "--concrete-playback=inplace"]
    )
    cbmc_args = list(h.get("cbmc_args", []))
    for loop, n in h.get("_unwindset", {}).items():
        cbmc_args += ["--unwindset", "%s:%d" % (loop, n)]
    if cbmc_args:
        cmd += ["--cbmc-args"] + cbmc_args
    lp = os.path.join(logdir, name + ".playback-gen.log")
    with open(lp, "w") as lf:
        try:
            subprocess.call(
                cmd, cwd=repo, env=base_env(hdir), stdout=lf, stderr=subprocess.STDOUT,
                preexec_fn=_limits(max(3 * h.get("mem_gb", 4), 48)), timeout=THOROUGH_CAP_S,
            )
        except subprocess.TimeoutExpired:
            record["replay"] = "playback generation timed out"
            json.dump(record, open(rpath, "w"), indent=1)
            return None, rpath
    after = open(hfile).read()
    # Kani copies the (pretty-printed, possibly multi-line) assertion text into a `///` comment;
    # join continuation lines so that the generated test compiles
    fixed = re.sub(r'(/// Check for `[^`\n]*`: ")((?:[^"\n]|\n(?!\n#\[test\]))*)("\n\n#\[test\])',
                   lambda m: m.group(1) + m.group(2).replace("\n", " ") + m.group(3), after)
    if fixed != after:
        after = fixed
        open(hfile, "w").write(after)
    tests = re.findall(r"fn (kani_concrete_playback_\w+)\s*\(", after)
    new_tests = [t for t in tests if t not in before]
    if not new_tests:
        open(hfile, "w").write(before)
        record["replay"] = "no concrete playback test was generated"
        json.dump(record, open(rpath, "w"), indent=1)
        return None, rpath
    # keep the generated test text; tests generated for cover points are not counterexamples
    blocks = re.findall(r"/// Test generated for harness[^\n]*\n(?:///[^\n]*\n|\n)*#\[test\]\nfn kani_concrete_playback_\w+\(\) \{\n(?:.*\n)*?\}\n", after)
    cex = []
    for b_ in blocks:
        t = re.search(r"fn (kani_concrete_playback_\w+)", b_).group(1)
        if t in new_tests and "Check for `cover`" not in b_:
            cex.append((t, b_))
    record["playback_tests"] = [b_ for _, b_ in cex]
    if not cex:
        open(hfile, "w").write(before)
        record["replay"] = "concrete playback produced no counterexample test"
        json.dump(record, open(rpath, "w"), indent=1)
        return None, rpath
    ptdir = tdir + "-playback"
    reproduced = False
    outs = []
    env = base_env(hdir)
    env["CARGO_TARGET_DIR"] = ptdir
    for profile in ([],):  # dev profile = the semantics Kani models and the pinned suite runs
        for t, _ in cex[:3]:
            cmd = ["cargo", "kani", "playback", "-Z", "concrete-playback", "-p", h["package"]] + profile + ["--", t]
            lp2 = os.path.join(logdir, "%s.playback-run%s.%s.log" % (name, "-release" if profile else "", t[-6:]))
            with open(lp2, "w") as lf:
                try:
                    rc = subprocess.call(cmd, cwd=repo, env=env, stdout=lf, stderr=subprocess.STDOUT, timeout=1800)
                except subprocess.TimeoutExpired:
                    rc = -9
            out = open(lp2, errors="replace").read()
            panics = re.findall(r"panicked at ([^\n]*)\n([^\n]*)", out)
            # a panic inside Kani's playback machinery ("Not enough det vals found") means the run left
            # the path of the counterexample: that is not a reproduction
            infra = any("concrete_playback.rs" in loc for loc, _ in panics)
            failed = bool(re.search(r"test result: FAILED", out)) and rc != 0 and bool(panics) and not infra
            if failed and info.get("stubs"):
                # Kani's playback does not apply #[kani::stub]: the native run of a harness that uses
                # stand-ins takes the real callee instead. It counts as a reproduction only if it fails
                # with the very check the solver reported, not with some other assertion of the harness
                # that presupposes the stand-in (recorded call counters etc.)
                def norm(x):
                    return re.sub(r"[\s:.]+$", "", x.replace("assertion failed: ", "")).strip()
                descs = [norm(f["description"]) for f in res["failed"]]
                msgs = " ".join(msg for _, msg in panics)
                if not any(d and d in msgs for d in descs):
                    failed = False
            outs.append({"profile": "release" if profile else "dev", "test": t, "rc": rc, "test_failed": failed,
                         "panic": re.findall(r"panicked at [^\n]*\n[^\n]*", out)[:3]})
            if failed:
                reproduced = True
    open(hfile, "w").write(before)  # the next replay starts from the pristine harness file
    record["native_runs"] = outs
    record["reproduced"] = reproduced
    json.dump(record, open(rpath, "w"), indent=1)
    return reproduced, rpath


# --------------------------------------------------------------------------------------
# known findings


def load_known():
    p = os.path.join(VERIF, "known_findings.json")
    if not os.path.exists(p):
        return []
    return [e for e in json.load(open(p))["findings"] if e.get("status") == "known"]


def match_known(known, pid, hname, res):
    """a failing harness is a known finding iff it is the recorded witness harness and every
    failed check description is among the recorded ones"""
    for e in known:
        if e["property"] == pid and e["harness"] == hname:
            descs = set(f["description"] for f in res["failed"])
            if descs and descs <= set(e["failing_checks"]):
                return e
    return None


# --------------------------------------------------------------------------------------
# main


def schedule(harnesses, worker, jobs):
    """run harnesses in parallel under a memory budget (declared mem_gb)"""
    lock = threading.Lock()
    cond = threading.Condition(lock)
    state = {"mem": 0, "running": 0}
    results = {}
    pending = sorted(harnesses, key=lambda h: -h.get("mem_gb", 4))

    def run_one(h):
        try:
            results[h["name"]] = worker(h)
        except Inconclusive as e:
            results[h["name"]] = {"name": h["name"], "status": "inconclusive", "detail": str(e), "failed": [], "covers": {}, "n_checks": 0}
            log("[%s] INCONCLUSIVE %s" % (h["name"], e))
        except Exception as e:  # pragma: no cover
            results[h["name"]] = {"name": h["name"], "exception": repr(e)}
        with cond:
            state["mem"] -= h.get("mem_gb", 4)
            state["running"] -= 1
            cond.notify_all()

    threads = []
    with cond:
        while pending:
            started = False
            for h in list(pending):
                m = h.get("mem_gb", 4)
                if state["running"] < jobs and (state["mem"] + m <= TOTAL_MEM_GB or state["running"] == 0):
                    pending.remove(h)
                    state["mem"] += m
                    state["running"] += 1
                    t = threading.Thread(target=run_one, args=(h,))
                    t.start()
                    threads.append(t)
                    started = True
            if pending and not started:
                cond.wait()
    for t in threads:
        t.join()
    return results


def run_plan(pid, plan, tag, args, seed, known, only, viol_so_far=0):
    """runs the harnesses of one plan file on its own scratch copy (a property may consist of a main
    plan and sub-plans that need other source transforms of the scratch copy)"""
    out = {"harnesses": [], "hres": {}, "transforms": [], "build_s": 0.0, "notes": [], "exit_code": 0, "violations": 0}
    harnesses = select_harnesses(plan, args.tier, only)
    if args.replay:
        harnesses = [h for h in harnesses if h["name"] == only]
    if not harnesses and not plan.get("dynamic"):
        return out
    cap = QUICK_CAP_S if args.tier == "quick" else THOROUGH_CAP_S
    jobs = int(os.environ.get("VERIF_JOBS", "16"))
    notes = out["notes"]
    tdir = target_dir(tag)
    lockf = open(os.path.join(tdir, ".verif.lock"), "w")
    fcntl.flock(lockf, fcntl.LOCK_EX)
    scratch = None
    exit_code = 0
    hres = {}
    violations = 0
    try:
        scratch, repo, hdir = make_scratch(tag)
        logdir = os.path.join(CACHE, "logs", tag + "-" + args.tier)
        shutil.rmtree(logdir, ignore_errors=True)
        os.makedirs(logdir)
        out["transforms"] = apply_transforms(plan, repo, hdir)
        HDIR_OVERRIDE[0] = hdir
        gdir = os.path.join(VERIF, "harness", "gen")
        for g in sorted(os.listdir(gdir)):
            if g.startswith("gen_") and g.endswith(".py"):
                try:
                    subprocess.check_call([sys.executable, os.path.join(gdir, g), repo, hdir, args.tier, str(seed), pid])
                except subprocess.CalledProcessError as e:
                    raise Inconclusive("generator %s failed: %s" % (g, e))
        dyn = os.path.join(hdir, pid + "_harnesses.json")
        if os.path.exists(dyn) and plan.get("dynamic"):
            # harness list generated from the repository's own data files on this run
            extra = json.load(open(dyn))
            plan["harnesses"] = plan.get("harnesses", []) + extra
            harnesses = select_harnesses(plan, args.tier, only)
            if not harnesses:
                raise Inconclusive("no harness selected after generation")
        out["harnesses"] = harnesses
        check_hooks(plan, repo, harnesses)
        pkgs = []
        for h in harnesses:
            if h["package"] not in pkgs:
                pkgs.append(h["package"])
        for pkg in pkgs:
            first = [h["_path"] for h in harnesses if h["package"] == pkg][0]
            rc, dt, lp = codegen(repo, hdir, pkg, tdir, logdir, first)
            out["build_s"] += dt
            log("[build] %s: rc=%d %.0fs" % (pkg, rc, dt))
            if rc != 0:
                tail = open(lp, errors="replace").read()[-3000:]
                log(tail)
                raise Inconclusive("kani build of %s failed (log %s)" % (pkg, lp))

        def worker(h):
            c = h.get("timeout_s", cap)
            r = run_harness(h, repo, hdir, tdir, logdir, c)
            st, detail = classify(h, r)
            r["status"], r["detail"] = st, detail
            log("[%s] %s: %s %s (cbmc %.0fs, wall %.0fs, rss %s MB, %d checks)" % (
                pid, h["name"], st.upper(), detail, r["verification_time_s"] or 0, r["wall_s"], r["peak_rss_mb"], r["n_checks"]))
            return r

        hres = schedule(harnesses, worker, jobs)

        # verdicts
        for h in harnesses:
            r = hres[h["name"]]
            if "exception" in r:
                notes.append("%s: runner exception %s" % (h["name"], r["exception"]))
                exit_code = max(exit_code, 3)
                continue
            expect_fail = h.get("expect") == "fail"
            st = r["status"]
            if expect_fail:
                # reachability twin / witness of a known finding
                kf = match_known(known, pid, h["name"], r) if st == "fail" else None
                if kf:
                    log("KNOWN-FINDING: property=%s %s" % (pid, kf["what"]))
                    r["status"] = "known-finding"
                elif st == "fail" and h.get("twin"):
                    r["status"] = "twin-ok"
                elif st == "pass":
                    if h.get("twin"):
                        notes.append("%s: reachability twin did not fail: harness family is vacuous" % h["name"])
                        exit_code = max(exit_code, 3)
                    else:
                        notes.append("%s: recorded known finding no longer fails (fixed?) - remove it from known_findings.json" % h["name"])
                        r["status"] = "known-finding-gone"
                elif st == "fail":
                    st = "fail-unlisted"
                else:
                    exit_code = max(exit_code, 3)
                    notes.append("%s: %s %s" % (h["name"], st, r["detail"]))
                if st != "fail-unlisted":
                    continue
            if st == "pass":
                continue
            if st in ("inconclusive", "vacuous"):
                exit_code = max(exit_code, 3)
                notes.append("%s: %s %s" % (h["name"], st, r["detail"]))
                continue
            # a failed check that is not a listed finding
            if only_ub(r["failed"]):
                log("UB-SUSPECT property=%s harness=%s %s" % (pid, h["name"], r["detail"]))
                notes.append("%s: only pointer-level checks failed; not natively confirmable" % h["name"])
                exit_code = max(exit_code, 2)
                continue
            if violations + viol_so_far >= 1 and not os.environ.get("VERIF_REPLAY_ALL"):
                # one natively confirmed violation decides the run; further failing harnesses are
                # listed but not replayed (set VERIF_REPLAY_ALL=1 to replay all)
                log("FAILED-NOT-REPLAYED property=%s harness=%s (%s)" % (pid, h["name"], r["detail"]))
                r["status"] = "fail-not-replayed"
                continue
            reproduced, rpath = replay_native(h, repo, hdir, tdir, logdir, pid, r)
            r["replay"] = rpath
            r["reproduced"] = reproduced
            if reproduced:
                violations += 1
                log("VIOLATION property=%s replay=%s" % (pid, rpath))
                log("  harness %s: %s" % (h["name"], r["detail"]))
                exit_code = 1
            else:
                log("COUNTEREXAMPLE-NOT-REPRODUCED property=%s harness=%s replay=%s (%s)" % (pid, h["name"], rpath, r["detail"]))
                notes.append("%s: solver counterexample did not reproduce natively" % h["name"])
                if exit_code != 1:
                    exit_code = max(exit_code, 2)
    except Inconclusive as e:
        log("INCONCLUSIVE: %s" % e)
        notes.append(str(e))
        exit_code = 3
    finally:
        if scratch and not args.keep:
            shutil.rmtree(scratch, ignore_errors=True)
            shutil.rmtree(tdir + "-playback", ignore_errors=True)
        HDIR_OVERRIDE[0] = None
        fcntl.flock(lockf, fcntl.LOCK_UN)
    out["hres"] = hres
    out["exit_code"] = exit_code
    out["violations"] = violations
    return out


def merge_exit(a, b):
    # 1 (confirmed violation) dominates, then 3 (inconclusive), then 2, then 0
    if 1 in (a, b):
        return 1
    return max(a, b)


def main():
    ap = argparse.ArgumentParser()
    ap.add_argument("property")
    ap.add_argument("--tier", default=os.environ.get("VERIF_TIER", "quick"), choices=["quick", "thorough", "heavy"])
    ap.add_argument("--harness", default=None, help="only harnesses whose name contains this")
    ap.add_argument("--replay", default=None, help="re-run a recorded counterexample")
    ap.add_argument("--keep", action="store_true", help="keep the scratch copy")
    ap.add_argument("--no-evidence", action="store_true")
    ap.add_argument("--plan", default=None, help="experiment plan file plans/<PLAN>.json (its own scratch/target dirs; never writes evidence)")
    args = ap.parse_args()
    pid = args.property
    seed = int(os.environ.get("VERIF_SEED", "0"))
    t_start = time.time()
    plan = load_plan(pid, args.plan)
    # VERIF_TAG_SUFFIX: private scratch/target/lock directories (seeded-change evaluation next to
    # regular runs); such runs never write evidence
    suffix = os.environ.get("VERIF_TAG_SUFFIX", "")
    tag = (args.plan or pid) + suffix
    if args.plan or suffix or args.tier == "heavy":
        args.no_evidence = True
    only = args.harness
    if args.replay:
        rec = json.load(open(args.replay))
        only = rec["harness"]
        args.tier = "thorough"
    known = load_known()

    plans = [(tag, plan)]
    if not args.plan:
        for sub in plan.get("subplans", []):
            plans.append((sub + suffix, load_plan(pid, sub)))
    harnesses, hres, transforms, notes = [], {}, [], []
    build_s, violations, exit_code = 0.0, 0, 0
    ran_any = False
    for t, pl in plans:
        r = run_plan(pid, pl, t, args, seed, known, only, violations)
        if r["harnesses"] or r["exit_code"]:
            ran_any = True
        harnesses += r["harnesses"]
        hres.update(r["hres"])
        transforms += [("%s: " % t if t != pid else "") + x for x in r["transforms"]]
        notes += r["notes"]
        build_s += r["build_s"]
        violations += r["violations"]
        exit_code = merge_exit(exit_code, r["exit_code"])
    if not ran_any:
        log("no harness selected")
        return 3

    wall = time.time() - t_start
    if not args.no_evidence and not args.harness and not args.replay:
        write_evidence(pid, args.tier, seed, plan, harnesses, hres, transforms, build_s, wall, violations, notes, exit_code)
    for n in notes:
        log("note: " + n)
    log("[%s] tier=%s exit=%d wall=%.0fs" % (pid, args.tier, exit_code, wall))
    return exit_code


def write_evidence(pid, tier, seed, plan, harnesses, hres, transforms, build_s, wall, violations, notes, exit_code):
    samples = []
    n_checks = 0
    n_nontrivial = 0
    cbmc_s = 0.0
    peak = 0
    failed_total = 0
    covers_sat = 0
    for h in harnesses:
        r = hres.get(h["name"], {})
        info = harness_source_info(h["name"])
        n_checks += r.get("n_checks", 0) or 0
        cbmc_s += r.get("verification_time_s") or 0
        peak = max(peak, r.get("peak_rss_mb") or 0)
        failed_total += len(r.get("failed", []))
        cov = r.get("covers", {})
        sat = [c for c, s in cov.items() if s == "SATISFIED"]
        covers_sat += len(sat)
        if r.get("status") in ("pass", "known-finding", "twin-ok") and (r.get("n_checks") or 0) > 0 and len(sat) == len(
            [c for c in cov if not any(o in c for o in h.get("optional_covers", []))]
        ):
            n_nontrivial += 1
        samples.append(
            {
                "harness": h["name"],
                "package": h["package"],
                "harness_file": "harness/incrate/%s" % info["file"],
                "functions_encoded": h.get("functions", []),
                "bounds": h.get("bounds", ""),
                "unwind": info["unwind"],
                "unwindset": h.get("unwindset_fn", h.get("unwindset", {})),
                "stubs": info["stubs"],
                "exhaustive_over_domain": bool(h.get("exhaustive", False)),
                "status": r.get("status"),
                "detail": r.get("detail"),
                "checks_discharged": r.get("n_checks"),
                "checks_failed": len(r.get("failed", [])),
                "covers_satisfied": sat,
                "cbmc_time_s": r.get("verification_time_s"),
                "wall_s": r.get("wall_s"),
                "peak_rss_mb": r.get("peak_rss_mb"),
            }
        )
    ev = {
        "property_id": pid,
        "tier": tier,
        "seed": seed,
        "level": "model_checking",
        "coverage": {
            "evaluations": n_checks,
            "distinct_nontrivial": n_nontrivial,
            "rule": "evaluations = CBMC properties (assertions, arithmetic-overflow, bounds, pointer and unwinding "
            "assertions) decided by the solver over all values of the symbolic inputs within the bounds, summed over the "
            "harnesses run; distinct_nontrivial = harnesses (distinct solver queries over the real compiled code) whose "
            "verdict was obtained AND whose kani::cover! reachability witnesses were all satisfiable (a harness whose "
            "assertions are unreachable does not count)",
            "samples": samples,
            "exhaustive": all(bool(h.get("exhaustive", False)) for h in harnesses),
            "harnesses_run": len(harnesses),
            "covers_satisfied": covers_sat,
            "checks_failed": failed_total,
            "engine": "Kani 0.68.0 -> CBMC 6.11.0, SAT back end CaDiCaL; unwinding assertions on",
            "solver_time_s": round(cbmc_s, 1),
            "kani_build_s": round(build_s, 1),
            "peak_rss_mb": peak,
            "bounds_text": plan.get("bounds_text", ""),
            "outside_bound": plan.get("outside_bound", []),
            "stubs_and_models": plan.get("stubs", []),
            "source_transforms": transforms,
            "encoding": "regenerated on this run from a fresh copy of /repo's working tree (rustc MIR -> goto-program)",
            "exit_code": exit_code,
            "notes": notes,
        },
        "assumptions": plan.get("assumptions", []),
        "wall_s": round(wall, 1),
        "violations": violations,
    }
    os.makedirs(os.path.join(VERIF, "evidence"), exist_ok=True)
    with open(os.path.join(VERIF, "evidence", pid + ".json"), "w") as f:
        json.dump(ev, f, indent=1)
        f.write("\n")


if __name__ == "__main__":
    sys.exit(main())
