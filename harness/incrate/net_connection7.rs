// C01-C04 harnesses for the 0.7 connection layer, include!()-ed into net/src/connection7.rs under
// cfg(kani). Shared harnesses come from the generated gen_net_conn07.rs.

const V_TOKEN_ROOM: usize = 0;

fn v_online(ack: u16, seq: u16) -> OnlineState {
    let mut o = OnlineState::new(Token(kani::any()), Token(kani::any()));
    o.ack = Sequence::from_u16(ack % 1024);
    o.sequence = Sequence::from_u16(seq % 1024);
    o
}

fn v_connection(ack: u16, seq: u16) -> Connection {
    Connection { state: State::Online(v_online(ack, seq)), send: Timeout::inactive(), builder: PacketBuilder::new() }
}

fn v_send_accepts(len: usize) -> bool {
    len <= MAX_PAYLOAD && len >> protocol::CHUNK_SIZE_BITS == 0
}

fn v_expected_token(c: &Connection) -> [u8; 4] {
    c.state.own_token().unwrap_or(TOKEN_NONE).0
}

/// the byte budget can_fit_chunk admits for the chunk area
fn v_fit_limit() -> usize {
    MAX_PACKETSIZE - protocol::HEADER_SIZE
}

fn v_token_ok(t: [u8; 4]) -> bool {
    t != [0xff; 4]
}

include!(concat!(env!("LIBTW2_VERIF_HARNESS"), "/gen_net_conn07.rs"));
