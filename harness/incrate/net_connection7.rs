// C01-C04 harnesses for the 0.7 connection layer, include!()-ed into net/src/connection7.rs under
// cfg(kani). Shared harnesses come from the generated gen_net_conn07.rs.

const V_TOKEN_ROOM: usize = 0;

fn v_online(ack: u16, seq: u16) -> OnlineState {
    let mut o = OnlineState::new(Token(kani::any()), Token(kani::any()));
    o.ack = Sequence::from_u16(ack % 1024);
    o.sequence = Sequence::from_u16(seq % 1024);
    o
}

fn v_connection(ack: u16, seq: u16) -> Connection {
    Connection { state: State::Online(v_online(ack, seq)), send: Timeout::inactive(), builder: PacketBuilder::new() }
}

fn v_send_accepts(len: usize) -> bool {
    len <= MAX_PAYLOAD && len >> protocol::CHUNK_SIZE_BITS == 0
}

fn v_expected_token(c: &Connection) -> [u8; 4] {
    c.state.own_token().unwrap_or(TOKEN_NONE).0
}

/// the byte budget can_fit_chunk admits for the chunk area
fn v_fit_limit() -> usize {
    MAX_PACKETSIZE - protocol::HEADER_SIZE
}

fn v_token_ok(t: [u8; 4]) -> bool {
    t != [0xff; 4]
}

// ---- state construction for the feed-level step harnesses (feed_step in the shared template) ----
// state kinds: 0 Unconnected, 1 Connecting, 2 Pending, 3 Online, 4 Disconnected, 5 Token (connector
// waiting for the acceptor's token), 6 PendingConnect (acceptor that has answered a token request)

fn v_state(kind: u8) -> Connection {
    let own = Token(kani::any());
    let their = Token(kani::any());
    // representation invariant: own tokens come from Token::random (never the reserved value, see
    // c03_token_random), peer tokens from packets the reader accepted (it rejects the reserved value
    // as response token, see c06_reread07)
    kani::assume(own != TOKEN_NONE && their != TOKEN_NONE);
    let state = match kind {
        0 => State::Unconnected,
        1 => State::Connecting(ConnectingState::new(own, their)),
        2 => State::Pending(PendingState::new(own, their)),
        3 => {
            let mut o = OnlineState::new(own, their);
            o.ack = Sequence::from_u16(kani::any::<u16>() % 1024);
            o.sequence = Sequence::from_u16(kani::any::<u16>() % 1024);
            State::Online(o)
        }
        5 => State::Token(TokenState::new(own)),
        6 => State::PendingConnect(PendingConnectState::new(own)),
        _ => State::Disconnected,
    };
    Connection { state: state, send: Timeout::inactive(), builder: PacketBuilder::new() }
}

fn v_state_kind(c: &Connection) -> u8 {
    match c.state {
        State::Unconnected => 0,
        State::Connecting(_) => 1,
        State::Pending(_) => 2,
        State::Online(_) => 3,
        State::Disconnected => 4,
        State::Token(_) => 5,
        State::PendingConnect(_) => 6,
    }
}

fn v_tokens(c: &Connection) -> ([u8; 4], [u8; 4]) {
    (c.state.own_token().unwrap_or(TOKEN_NONE).0, c.state.their_token().unwrap_or(TOKEN_NONE).0)
}

/// the token a datagram must carry not to be inert, if the state has fixed one. The one documented
/// exception: an acceptor still waiting for the connect (PendingConnect) answers the protocol's
/// unauthenticated token request (packet kind 4 carrying TOKEN_NONE).
fn v_required_token(state_kind: u8, tokens: ([u8; 4], [u8; 4]), pkt_kind: u8, carried: [u8; 4]) -> Option<[u8; 4]> {
    match state_kind {
        1 | 2 | 3 | 5 => Some(tokens.0),
        6 => {
            if pkt_kind == 4 && carried == TOKEN_NONE.0 {
                Some(TOKEN_NONE.0)
            } else {
                Some(tokens.0)
            }
        }
        _ => None,
    }
}

fn v_ready_kind() -> u8 {
    5 // Accept
}

fn v_timer_state(kind: u8) -> bool {
    kind == 1 || kind == 2 || kind == 3 || kind == 5
}

fn v_edge(before: u8, pkt: u8, after: u8) -> bool {
    (before == 0 && pkt == 4 && after == 6)      // token request: Unconnected -> PendingConnect
        || (before == 5 && pkt == 4 && after == 1) // token answer: Token -> Connecting
        || (before == 6 && pkt == 3 && after == 2) // Connect: PendingConnect -> Pending
        || (before == 1 && pkt == 5 && after == 3) // Accept: Connecting -> Online
        || (before == 2 && pkt == 2 && after == 3) // first chunk packet: Pending -> Online
        || (pkt == 1 && after == 4)                // Close
}

include!(concat!(env!("LIBTW2_VERIF_HARNESS"), "/gen_net_conn07.rs"));
