// C01-C04 harnesses for the 0.6 connection layer, include!()-ed into net/src/connection.rs under
// cfg(kani). Shared harnesses come from the generated gen_net_conn06.rs.

/// extra room the writer needs behind the chunk area (DDNet token)
const V_TOKEN_ROOM: usize = 4;

fn v_online(ack: u16, seq: u16) -> OnlineState {
    let mut o = OnlineState::new(Some(Token(kani::any())));
    o.ack = Sequence::from_u16(ack % 1024);
    o.sequence = Sequence::from_u16(seq % 1024);
    o
}

fn v_connection(ack: u16, seq: u16) -> Connection {
    Connection { state: State::Online(v_online(ack, seq)), send: Timeout::inactive(), builder: PacketBuilder::new() }
}

/// the lengths Connection::send accepts (documented by its TooLongData answer)
fn v_send_accepts(len: usize) -> bool {
    len <= MAX_PAYLOAD && len >> protocol::CHUNK_SIZE_BITS == 0
}

fn v_expected_token(c: &Connection) -> [u8; 4] {
    // 0.6: [0xfe; 4] stands for "no token carried" (cannot collide: TOKEN_NONE is ff ff ff ff and a
    // carried token is compared as Option)
    match c.state.token() {
        Some(&Some(t)) => t.0,
        _ => [0xfe; 4],
    }
}

/// the byte budget can_fit_chunk admits for the chunk area
fn v_fit_limit() -> usize {
    MAX_PAYLOAD
}

fn v_token_ok(t: [u8; 4]) -> bool {
    t != [0xff; 4] && t != [0; 4]
}

// ---- state construction for the feed-level step harnesses (feed_step in the shared template) ----
// state kinds: 0 Unconnected, 1 Connecting, 2 Pending, 3 Online, 4 Disconnected

fn v_opt_token() -> Option<Token> {
    if kani::any() {
        Some(Token(kani::any()))
    } else {
        None
    }
}

fn v_state(kind: u8) -> Connection {
    let state = match kind {
        0 => State::Unconnected,
        1 => State::Connecting,
        2 => State::Pending(PendingState::new(v_opt_token())),
        // 3: Online with an agreed token, 7: Online without (legacy peers); separate harnesses, a
        // symbolic token mode made the Online-state queries exceed 16 GB
        3 | 7 => {
            let mut o = OnlineState::new(if kind == 3 { Some(Token(kani::any())) } else { None });
            o.ack = Sequence::from_u16(kani::any::<u16>() % 1024);
            o.sequence = Sequence::from_u16(kani::any::<u16>() % 1024);
            State::Online(o)
        }
        _ => State::Disconnected,
    };
    Connection { state: state, send: Timeout::inactive(), builder: PacketBuilder::new() }
}

fn v_state_kind(c: &Connection) -> u8 {
    match c.state {
        State::Unconnected => 0,
        State::Connecting => 1,
        State::Pending(_) => 2,
        State::Online(_) => 3,
        State::Disconnected => 4,
    }
}

/// (agreed token or fe fe fe fe for "agreed: no token", unused)
fn v_tokens(c: &Connection) -> ([u8; 4], [u8; 4]) {
    (v_expected_token(c), [0; 4])
}

/// the token a datagram must carry not to be inert, if the state has fixed one
fn v_required_token(state_kind: u8, tokens: ([u8; 4], [u8; 4]), _pkt_kind: u8, _carried: [u8; 4]) -> Option<[u8; 4]> {
    if state_kind == 2 || state_kind == 3 {
        Some(tokens.0)
    } else {
        None
    }
}

/// packet kind (parser stand-in numbering) of the acceptor's answer that makes the connector ready
fn v_ready_kind() -> u8 {
    4 // ConnectAccept
}

/// states that keep the send timer armed
fn v_timer_state(kind: u8) -> bool {
    kind == 1 || kind == 2 || kind == 3
}

/// documented handshake edges (before, packet kind, after)
fn v_edge(before: u8, pkt: u8, after: u8) -> bool {
    (before == 0 && pkt == 3 && after == 2)      // Connect: Unconnected -> Pending
        || (before == 1 && pkt == 4 && after == 3) // ConnectAccept: Connecting -> Online
        || (before == 2 && pkt == 2 && after == 3) // first chunk packet: Pending -> Online
        || (pkt == 1 && after == 4)                // Close
}

include!(concat!(env!("LIBTW2_VERIF_HARNESS"), "/gen_net_conn06.rs"));

// ---------------------------------------------------------------------------------------------
// Recording stand-ins for the C20 harnesses (net.rs): which connection object was called (by tag =
// its sequence/ack fields are not touched; the tag is the `send` timer), through which callback
// (observed by one cb.send of the tag byte), returning an arbitrary result.

pub static mut VERIF_CALLS: u32 = 0;
pub static mut VERIF_LAST_TAG: u64 = 0;

impl Connection {
    pub fn verif_tagged(tag: u64) -> Connection {
        let mut c = Connection::new();
        c.send = Timeout::active(Timestamp::from_usecs_since_epoch(tag));
        c
    }
    pub fn verif_set_tag(&mut self, tag: u64) {
        self.send = Timeout::active(Timestamp::from_usecs_since_epoch(tag));
    }
    pub fn verif_tag(&self) -> u64 {
        self.send.to_opt().map(|t| t.as_usecs_since_epoch()).unwrap_or(u64::MAX)
    }
    pub fn verif_calls() -> (u32, u64) {
        unsafe { (VERIF_CALLS, VERIF_LAST_TAG) }
    }
    /// a state that reports its send timer as deadline without carrying a payload (moving a 4 KB
    /// OnlineState into a peer stored in a heap-backed map is what makes C20 harnesses expensive)
    pub fn verif_set_connecting(&mut self) {
        self.state = State::Connecting;
    }
    pub fn verif_set_online(&mut self) {
        self.state = State::Online(OnlineState::new(None));
    }
    pub fn verif_set_disconnect_event(v: u8) {
        unsafe {
            VERIF_EVENT = v;
        }
    }
    fn verif_record<CB: Callback>(&mut self, cb: &mut CB) -> Result<(), CB::Error> {
        unsafe {
            VERIF_CALLS += 1;
            VERIF_LAST_TAG = self.verif_tag();
        }
        let tag = [self.verif_tag() as u8];
        cb.send(&tag)
    }
    pub fn verif_feed_stub<'a, B, CB, W>(&mut self, cb: &mut CB, _warn: &mut W, data: &'a [u8], _buf: B) -> (ReceivePacket<'a>, Result<(), CB::Error>)
    where
        B: Buffer<'a>,
        CB: Callback,
        W: Warn<Warning>,
    {
        let r = self.verif_record(cb);
        let ev = unsafe { VERIF_EVENT };
        let rp = match ev {
            0 => ReceivePacket::none(),
            1 => ReceivePacket::ready(),
            2 => ReceivePacket::disconnect(data),
            _ => ReceivePacket::connless(data),
        };
        (rp, r)
    }
    pub fn verif_send_stub<CB: Callback>(&mut self, cb: &mut CB, _buffer: &[u8], _vital: bool) -> Result<(), Error<CB::Error>> {
        self.verif_record(cb).map_err(Error::from)
    }
    pub fn verif_flush_stub<CB: Callback>(&mut self, cb: &mut CB) -> Result<(), CB::Error> {
        self.verif_record(cb)
    }
    pub fn verif_tick_stub<CB: Callback>(&mut self, cb: &mut CB) -> Result<(), CB::Error> {
        self.verif_record(cb)
    }
    pub fn verif_disconnect_stub<CB: Callback>(&mut self, cb: &mut CB, _reason: &[u8]) -> Result<(), CB::Error> {
        self.verif_record(cb)
    }
}

pub static mut VERIF_EVENT: u8 = 0;
