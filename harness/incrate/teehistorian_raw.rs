// C17 harnesses, include!()-ed into teehistorian/src/raw.rs under cfg(kani).
// Real code driven: Reader::read, Buffer::{read_kind, read_item, read_more}, item::Kind::decode,
// Kind::decode_rest, CallbackExt::read_buffer_ref - one `read` call from a symbolic reader state
// (the inductive step for streams of any length), JSON header not involved (Reader::empty).

/// callback that delivers a prepared tail once, then reports end of stream
struct TailCb {
    data: [u8; 8],
    len: usize,
    done: bool,
}
impl Callback for TailCb {
    type Error = ();
    fn read_at_most(&mut self, buffer: &mut [u8]) -> Result<Option<usize>, ()> {
        if self.done || self.len == 0 {
            return Ok(None);
        }
        self.done = true;
        let n = if self.len < buffer.len() { self.len } else { buffer.len() };
        let mut i = 0;
        while i < n {
            buffer[i] = self.data[i];
            i += 1;
        }
        Ok(Some(n))
    }
}

fn buffer_with(bytes: &[u8], n: usize) -> Buffer {
    let mut v = Vec::with_capacity(16);
    let mut i = 0;
    while i < n {
        v.push(bytes[i]);
        i += 1;
    }
    Buffer { offset: 0, buffer: v }
}

fn reader_state(tick: i32, prev: Option<i32>, in_tick: bool, next: Option<item::Kind>) -> Reader {
    let mut r = Reader::empty(format::Version::V2);
    r.tick = tick;
    r.prev_player_cid = prev;
    r.in_tick = in_tick;
    r.next_item_kind = next;
    r.players = VecMap::with_capacity(4);
    r.inputs = VecMap::with_capacity(4);
    r
}

/// (kind, a, b, c): 0 none(finish), 1 TickStart(t), 2 TickEnd(t), 3 PlayerNew, 4 PlayerChange(cid,x,y),
/// 5 PlayerOld, 6 Join, 7 other; errors: 1 TickOverflow, 2 other
fn do_read(r: &mut Reader, cb: &mut TailCb, buf: &mut Buffer) -> Result<(u8, i32, i32, i32), u8> {
    match r.read(cb, buf) {
        Ok(it) => Ok(item_summary(&it)),
        Err(Error::Teehistorian(format::Error::TickOverflow)) => Err(1),
        Err(_) => Err(2),
    }
}

#[kani::proof]
#[kani::unwind(8)]
fn c17_tick_skip_step() {
    // one TICK_SKIP record from any state: the tick advances by dt + 1 and the remembered player id
    // is cleared (doc/teehistorian.md pseudo-code); tick overflow is an error
    let tick: i32 = kani::any();
    let prev: Option<i32> = kani::any();
    let in_tick: bool = kani::any();
    let dt_byte: u8 = kani::any();
    kani::assume(dt_byte < 64);
    let bytes = [0x41u8, dt_byte]; // -2 = TICK_SKIP, dt
    let mut buf = buffer_with(&bytes, 2);
    let mut r = reader_state(tick, prev, in_tick, None);
    let mut cb = TailCb { data: [0; 8], len: 0, done: false };
    let res = do_read(&mut r, &mut cb, &mut buf);
    match res {
        Ok((2, t, _, _)) => {
            assert!(in_tick && t == tick);
            assert!(r.tick as i64 == tick as i64 + 1 + dt_byte as i64);
            assert!(!r.in_tick);
            assert!(r.prev_player_cid.is_none());
        }
        Ok((1, t, _, _)) => {
            assert!(!in_tick);
            assert!(t as i64 == tick as i64 + 1 + dt_byte as i64 && r.tick == t);
            assert!(r.in_tick);
            assert!(r.prev_player_cid.is_none());
        }
        Ok(_) => assert!(false),
        Err(1) => {
            assert!(tick as i64 + 1 + dt_byte as i64 > i32::MAX as i64);
        }
        Err(_) => assert!(false),
    }
    kani::cover!(matches!(res, Ok((2, _, _, _))) && prev.is_some());
    kani::cover!(matches!(res, Ok((1, _, _, _))));
    kani::cover!(res.is_err());
    core::mem::forget(r);
    core::mem::forget(buf);
}

#[kani::proof]
#[kani::unwind(8)]
fn c17_player_record_tick_step() {
    // a pending player record (kind already parsed) from any state: the implicit tick rule of the
    // documentation - the tick advances by one iff the remembered id is >= this id; tick boundaries
    // are reported as TickEnd(old) / TickStart(new) around it
    let tick: i32 = kani::any();
    let prev: Option<i32> = kani::any();
    let in_tick: bool = kani::any();
    let cid: i32 = kani::any();
    kani::assume(0 <= cid && cid < 4);
    let xy: [u8; 2] = kani::any();
    kani::assume(xy[0] < 128 && xy[1] < 128);
    let mut buf = buffer_with(&xy, 2);
    let mut r = reader_state(tick, prev, in_tick, Some(item::Kind::PlayerNew(cid)));
    let mut cb = TailCb { data: [0; 8], len: 0, done: false };
    let res = do_read(&mut r, &mut cb, &mut buf);
    let implicit = prev.map(|p| p >= cid).unwrap_or(false);
    match res {
        Ok((1, t, _, _)) => {
            assert!(!in_tick && t == tick && r.tick == tick && r.in_tick);
            // the record stays pending
            assert!(r.next_item_kind == Some(item::Kind::PlayerNew(cid)));
            assert!(buf.offset == 0);
        }
        Ok((2, t, _, _)) => {
            assert!(in_tick && implicit);
            assert!(t == tick && r.tick as i64 == tick as i64 + 1);
            assert!(!r.in_tick && r.prev_player_cid.is_none());
            assert!(r.next_item_kind == Some(item::Kind::PlayerNew(cid)));
        }
        Ok((3, c, _, _)) => {
            assert!(in_tick && !implicit);
            assert!(c == cid && r.tick == tick);
            assert!(r.prev_player_cid == Some(cid));
            assert!(buf.offset == 2);
        }
        Ok(_) => assert!(false),
        Err(1) => assert!(tick == i32::MAX && implicit && in_tick),
        Err(_) => assert!(false),
    }
    kani::cover!(matches!(res, Ok((2, _, _, _))));
    kani::cover!(matches!(res, Ok((3, _, _, _))));
    core::mem::forget(r);
    core::mem::forget(buf);
}

#[kani::proof]
#[kani::unwind(8)]
fn c17_player_diff_running_sum() {
    // positions are wrapping running sums of the recorded differences
    let x: i32 = kani::any();
    let y: i32 = kani::any();
    let d: [u8; 2] = kani::any();
    kani::assume(d[0] < 128 && d[1] < 128);
    let mut buf = buffer_with(&d, 2);
    let mut r = reader_state(kani::any(), None, true, Some(item::Kind::PlayerDiff(1)));
    r.players.insert(1, Pos { x: x, y: y });
    let mut cb = TailCb { data: [0; 8], len: 0, done: false };
    let dx = if d[0] & 0x40 != 0 { !((d[0] & 0x3f) as i32) } else { (d[0] & 0x3f) as i32 };
    let dy = if d[1] & 0x40 != 0 { !((d[1] & 0x3f) as i32) } else { (d[1] & 0x3f) as i32 };
    match do_read(&mut r, &mut cb, &mut buf) {
        Ok((4, c, px, py)) => {
            assert!(c == 1);
            assert!(px == x.wrapping_add(dx) && py == y.wrapping_add(dy));
            let p = r.player_pos(1).unwrap();
            assert!(p.x == px && p.y == py);
        }
        _ => assert!(false),
    }
    core::mem::forget(r);
    core::mem::forget(buf);
}

fn item_summary(it: &Option<Item>) -> (u8, i32, i32, i32) {
    match it {
        None => (0, 0, 0, 0),
        Some(Item::TickStart(t)) => (1, *t, 0, 0),
        Some(Item::TickEnd(t)) => (2, *t, 0, 0),
        Some(Item::PlayerNew(p)) => (3, p.cid, p.pos.x, p.pos.y),
        Some(Item::PlayerChange(p)) => (4, p.cid, p.pos.x, p.pos.y),
        Some(Item::PlayerOld(p)) => (5, p.cid, p.pos.x, p.pos.y),
        Some(Item::Join(j)) => (6, j.cid, 0, 0),
        Some(_) => (7, 0, 0, 0),
    }
}

fn fitem_summary(it: &format::Item) -> (u8, i32, i32, i32) {
    match it {
        format::Item::PlayerDiff(i) => (1, i.cid, i.dx, i.dy),
        format::Item::PlayerNew(i) => (2, i.cid, i.x, i.y),
        format::Item::PlayerOld(i) => (3, i.cid, 0, 0),
        format::Item::TickSkip(i) => (4, i.dt as i32, 0, 0),
        format::Item::Finish(_) => (5, 0, 0, 0),
        format::Item::Join(i) => (6, i.cid, 0, 0),
        format::Item::Drop(i) => (7, i.cid, i.reason.len() as i32, 0),
        format::Item::Message(i) => (9, i.cid, i.msg.len() as i32, 0),
        _ => (8, 0, 0, 0),
    }
}

/// parse one record (kind, then body) through the Buffer layer - the only code whose behaviour can
/// depend on how the stream is cut; Reader::read is a function of (state, kind, item) beyond it
fn parse_record(buf: &mut Buffer, cb: &mut TailCb) -> Result<((u8, i32, i32, i32), usize), u8> {
    let kind = match buf.read_kind(cb, format::Version::V2) {
        Ok(k) => k,
        Err(Error::Teehistorian(format::Error::UnexpectedEnd)) => return Err(1),
        Err(_) => return Err(2),
    };
    let s = match buf.read_item(cb, kind) {
        Ok(it) => fitem_summary(&it),
        Err(Error::Teehistorian(format::Error::UnexpectedEnd)) => return Err(3),
        Err(_) => return Err(4),
    };
    Ok((s, buf.offset))
}

fn frag_step<const N: usize>(rec: [u8; N], split: usize) {
    // the same record bytes, once completely buffered and once cut at `split` (prefix buffered, the
    // rest delivered by the callback): same item or same error class, same consumed byte count
    let mut buf_a = buffer_with(&rec, N);
    let mut cba = TailCb { data: [0; 8], len: 0, done: false };
    let ra = parse_record(&mut buf_a, &mut cba);
    let mut buf_b = buffer_with(&rec, split);
    let mut tail = [0u8; 8];
    let mut i = split;
    while i < N {
        tail[i - split] = rec[i];
        i += 1;
    }
    let mut cbb = TailCb { data: tail, len: N - split, done: false };
    let rb = parse_record(&mut buf_b, &mut cbb);
    assert!(ra == rb);
    kani::cover!(ra.is_ok());
    kani::cover!(ra.is_err());
    core::mem::forget(buf_a);
    core::mem::forget(buf_b);
}

fn kind_code(k: &item::Kind) -> (u8, i32) {
    match *k {
        item::Kind::PlayerDiff(c) => (1, c),
        item::Kind::Finish => (2, 0),
        item::Kind::TickSkip => (3, 0),
        item::Kind::PlayerNew(c) => (4, c),
        item::Kind::PlayerOld(c) => (5, c),
        item::Kind::InputDiff => (6, 0),
        item::Kind::InputNew => (7, 0),
        item::Kind::Message => (8, 0),
        item::Kind::Join => (9, 0),
        item::Kind::Drop => (10, 0),
        item::Kind::ConsoleCommand => (11, 0),
        item::Kind::Ex => (12, 0),
    }
}

fn parse_kind(buf: &mut Buffer, cb: &mut TailCb) -> Result<((u8, i32), usize), u8> {
    match buf.read_kind(cb, format::Version::V2) {
        Ok(k) => Ok((kind_code(&k), buf.offset)),
        Err(Error::Teehistorian(format::Error::UnexpectedEnd)) => Err(1),
        Err(_) => Err(2),
    }
}

#[kani::proof]
#[kani::unwind(8)]
fn c17_frag_record_kind() {
    // the record-kind prefix (one or two variable-length integers) of every 3-byte stream, completely
    // buffered vs cut at every position with the rest delivered by the callback: same kind or same
    // error class and the same consumed byte count. This exercises the commit-offset-on-success /
    // refill-and-retry logic (Buffer::read_kind, read_more) that read_item shares.
    let rec: [u8; 3] = kani::any();
    let split: usize = kani::any();
    kani::assume(split <= 3);
    let mut buf_a = buffer_with(&rec, 3);
    let mut cba = TailCb { data: [0; 8], len: 0, done: false };
    let ra = parse_kind(&mut buf_a, &mut cba);
    let mut buf_b = buffer_with(&rec, split);
    let mut tail = [0u8; 8];
    let mut i = split;
    while i < 3 {
        tail[i - split] = rec[i];
        i += 1;
    }
    let mut cbb = TailCb { data: tail, len: 3 - split, done: false };
    let rb = parse_kind(&mut buf_b, &mut cbb);
    assert!(ra == rb);
    kani::cover!(matches!(ra, Ok(((4, _), 3))));
    kani::cover!(ra.is_err());
    core::mem::forget(buf_a);
    core::mem::forget(buf_b);
}

#[kani::proof]
#[kani::unwind(8)]
fn c17_tick_skip_clears_cid_witness() {
    // concrete instance of c17_tick_skip_step (cheap to replay natively): in tick 5 after a record of
    // player 3, TICK_SKIP dt=0 ends tick 5, moves to tick 6 and forgets the player id, so that a
    // following record of a lower id does not advance the tick again (doc/teehistorian.md)
    let bytes = [0x41u8, 0];
    let mut buf = buffer_with(&bytes, 2);
    let mut r = reader_state(5, Some(3), true, None);
    let mut cb = TailCb { data: [0; 8], len: 0, done: false };
    let res = do_read(&mut r, &mut cb, &mut buf);
    assert!(res == Ok((2, 5, 0, 0)));
    assert!(r.tick == 6);
    assert!(r.prev_player_cid.is_none());
    core::mem::forget(r);
    core::mem::forget(buf);
}


// ---------------------------------------------------------------------------------------------
// Fragmentation independence, decided compositionally:
//  (1) c17_read_more_contract_*: the real Buffer::read_more from small pre-states (spare capacity /
//      full with consumed prefix -> compaction / full without -> reserve) with a callback that delivers
//      k symbolic bytes or end of stream: the unconsumed bytes stay the same and the delivered bytes are
//      appended behind them, or Err(UnexpectedEnd) and nothing changes.
//  (2) c17_frag_*: the real Buffer::{read_kind, read_item} retry loops over the real decoders with
//      read_more replaced by exactly that contract (`verif_read_more_model`): at every refill the model
//      appends a *nondeterministic* number of the following stream bytes, so one solver query covers
//      every way of cutting the record (within FRAG_MAX_REFILLS refills). The outcome is compared with
//      the outcome on the completely buffered stream.

static mut FRAG_STREAM: [u8; 8] = [0; 8];
static mut FRAG_LEN: usize = 0;
static mut FRAG_POS: usize = 0;
static mut FRAG_REFILLS: usize = 0;
/// bytes delivered per refill (concrete per harness: lengths that become buffer offsets are
/// enumerated, DESIGN 3.1 rule 6); usize::MAX = "everything that is left"
static mut FRAG_CHUNK: usize = 1;

impl Buffer {
    /// contract model of `read_more` (see c17_read_more_contract_*): appends the next FRAG_CHUNK
    /// stream bytes behind the unconsumed ones, or reports the end of the stream
    fn verif_read_more_model<CB: Callback>(&mut self, _cb: &mut CB) -> Result<(), Error<CB::Error>> {
        unsafe {
            if FRAG_POS >= FRAG_LEN {
                return Err(format::Error::UnexpectedEnd.into());
            }
            FRAG_REFILLS += 1;
            let left = FRAG_LEN - FRAG_POS;
            let n = if FRAG_CHUNK < left { FRAG_CHUNK } else { left };
            let mut i = 0;
            while i < n {
                // capacity was reserved by the harness: no reallocation
                self.buffer.push(FRAG_STREAM[FRAG_POS + i]);
                i += 1;
            }
            FRAG_POS += n;
            Ok(())
        }
    }
}

/// callback delivering `k` prepared bytes per call (or end of stream when `eof`)
struct ChunkCb {
    data: [u8; 4],
    k: usize,
    eof: bool,
    calls: usize,
}
impl Callback for ChunkCb {
    type Error = ();
    fn read_at_most(&mut self, buffer: &mut [u8]) -> Result<Option<usize>, ()> {
        self.calls += 1;
        if self.eof {
            return Ok(None);
        }
        let n = if self.k < buffer.len() { self.k } else { buffer.len() };
        let mut i = 0;
        while i < n {
            buffer[i] = self.data[i];
            i += 1;
        }
        Ok(Some(n))
    }
}

fn read_more_contract(cap: usize, len: usize, offset: usize) {
    let content: [u8; 4] = kani::any();
    let mut v = Vec::with_capacity(cap);
    let mut i = 0;
    while i < len {
        v.push(content[i]);
        i += 1;
    }
    let mut buf = Buffer { offset: offset, buffer: v };
    let mut cb = ChunkCb { data: kani::any(), k: kani::any(), eof: kani::any(), calls: 0 };
    kani::assume(cb.k <= 4);
    let res = buf.read_more(&mut cb);
    let pending_before = len - offset;
    match res {
        Ok(()) => {
            assert!(!cb.eof);
            assert!(cb.calls == 1);
            assert!(buf.offset <= buf.buffer.len());
            let pending_after = buf.buffer.len() - buf.offset;
            // delivered = min(k, spare capacity offered); the unconsumed bytes are preserved in front
            assert!(pending_after >= pending_before && pending_after - pending_before <= cb.k);
            let mut j = 0;
            while j < pending_before {
                assert!(buf.buffer[buf.offset + j] == content[offset + j]);
                j += 1;
            }
            let mut j = 0;
            while j < pending_after - pending_before {
                assert!(buf.buffer[buf.offset + pending_before + j] == cb.data[j]);
                j += 1;
            }
            // a callback that has k >= 1 bytes makes progress (the buffer offered room)
            assert!(cb.k == 0 || pending_after > pending_before);
            kani::cover!(pending_after > pending_before);
        }
        Err(Error::Teehistorian(format::Error::UnexpectedEnd)) => {
            assert!(cb.eof);
            let pending_after = buf.buffer.len() - buf.offset;
            assert!(pending_after == pending_before);
            let mut j = 0;
            while j < pending_before {
                assert!(buf.buffer[buf.offset + j] == content[offset + j]);
                j += 1;
            }
        }
        Err(_) => assert!(false),
    }
    kani::cover!(res.is_ok());
    kani::cover!(res.is_err());
    core::mem::forget(buf);
}

#[kani::proof]
#[kani::unwind(6)]
fn c17_read_more_contract_spare_0_0() {
    // spare capacity (capacity 8, 0 buffered, 0 consumed): the callback writes behind the buffered bytes
    read_more_contract(8, 0, 0);
}

#[kani::proof]
#[kani::unwind(6)]
fn c17_read_more_contract_spare_2_0() {
    // spare capacity (capacity 8, 2 buffered, 0 consumed): the callback writes behind the buffered bytes
    read_more_contract(8, 2, 0);
}

#[kani::proof]
#[kani::unwind(6)]
fn c17_read_more_contract_spare_2_1() {
    // spare capacity (capacity 8, 2 buffered, 1 consumed): the callback writes behind the buffered bytes
    read_more_contract(8, 2, 1);
}

#[kani::proof]
#[kani::unwind(6)]
fn c17_read_more_contract_spare_3_3() {
    // spare capacity (capacity 8, 3 buffered, 3 consumed): the callback writes behind the buffered bytes
    read_more_contract(8, 3, 3);
}

#[kani::proof]
#[kani::unwind(6)]
fn c17_read_more_contract_compact_1() {
    // full buffer (4 of 4) with 1 consumed bytes: the consumed prefix is dropped, then the callback is asked
    read_more_contract(4, 4, 1);
}

#[kani::proof]
#[kani::unwind(6)]
fn c17_read_more_contract_compact_2() {
    // full buffer (4 of 4) with 2 consumed bytes: the consumed prefix is dropped, then the callback is asked
    read_more_contract(4, 4, 2);
}

#[kani::proof]
#[kani::unwind(6)]
fn c17_read_more_contract_compact_4() {
    // full buffer (4 of 4) with 4 consumed bytes: the consumed prefix is dropped, then the callback is asked
    read_more_contract(4, 4, 4);
}

#[kani::proof]
#[kani::unwind(6)]
fn c17_read_more_contract_grow() {
    // full buffer, nothing consumed: the buffer grows (by BUFFER_SIZE), then the callback is asked
    read_more_contract(4, 4, 0);
}

fn frag_setup<const N: usize>(rec: [u8; N], split: usize, chunk: usize) -> (Buffer, Buffer) {
    // run A: everything buffered; run B: the first `split` bytes buffered, the rest behind the model,
    // delivered `chunk` bytes per refill
    let buf_a = buffer_with(&rec, N);
    let buf_b = buffer_with(&rec, split);
    unsafe {
        let mut i = 0;
        while i < N {
            FRAG_STREAM[i] = rec[i];
            i += 1;
        }
        FRAG_LEN = N;
        FRAG_CHUNK = chunk;
    }
    (buf_a, buf_b)
}

fn frag_kind<const N: usize>(split: usize, chunk: usize) -> usize {
    let rec: [u8; N] = kani::any();
    let (mut buf_a, mut buf_b) = frag_setup(rec, split, chunk);
    let mut cb = TailCb { data: [0; 8], len: 0, done: false };
    unsafe { FRAG_POS = FRAG_LEN; }
    let ra = parse_kind(&mut buf_a, &mut cb);
    unsafe { FRAG_POS = split; FRAG_REFILLS = 0; }
    let rb = parse_kind(&mut buf_b, &mut cb);
    assert!(ra == rb);
    kani::cover!(matches!(ra, Ok(((4, _), _))));
    kani::cover!(ra == Err(1));
    kani::cover!(ra == Err(2));
    core::mem::forget(buf_a);
    core::mem::forget(buf_b);
    unsafe { FRAG_REFILLS }
}

#[kani::proof]
#[kani::unwind(8)]
#[kani::stub(Buffer::read_more, Buffer::verif_read_more_model)]
fn c17_frag_kind_bytewise() {
    // record-kind prefix (one or two variable-length integers) of every 4-byte stream delivered one
    // byte per read result: same kind / same error class and consumed byte count as when the whole
    // stream is buffered
    let refills = frag_kind::<4>(0, 1);
    kani::cover!(refills == 4);
}

#[kani::proof]
#[kani::unwind(8)]
#[kani::stub(Buffer::read_more, Buffer::verif_read_more_model)]
fn c17_frag_kind_two_piece() {
    // every two-piece split of every 3-byte stream
    frag_kind::<3>(0, usize::MAX);
    frag_kind::<3>(1, usize::MAX);
    frag_kind::<3>(2, usize::MAX);
}

fn parse_item(buf: &mut Buffer, cb: &mut TailCb, kind: item::Kind) -> Result<((u8, i32, i32, i32), (u32, u32), usize), u8> {
    let s = match buf.read_item(cb, kind) {
        Ok(it) => (fitem_summary(&it), fitem_bytes(&it)),
        Err(Error::Teehistorian(format::Error::UnexpectedEnd)) => return Err(3),
        Err(_) => return Err(4),
    };
    Ok((s.0, s.1, buf.offset))
}

/// (length, polynomial byte hash) of the variable-length payload of an item
fn fitem_bytes(it: &format::Item) -> (u32, u32) {
    let b: &[u8] = match it {
        format::Item::Message(m) => m.msg,
        format::Item::Drop(d) => d.reason,
        format::Item::UnknownEx(e) => e.data,
        format::Item::PlayerName(p) => p.name,
        _ => &[],
    };
    let mut s = 0u32;
    let mut i = 0;
    while i < b.len() {
        s = s.wrapping_mul(31).wrapping_add(b[i] as u32 + 1);
        i += 1;
    }
    (b.len() as u32, s)
}

fn frag_item<const N: usize>(kind: item::Kind, split: usize, chunk: usize) -> (bool, usize) {
    let rec: [u8; N] = kani::any();
    let (mut buf_a, mut buf_b) = frag_setup(rec, split, chunk);
    let mut cb = TailCb { data: [0; 8], len: 0, done: false };
    unsafe { FRAG_POS = FRAG_LEN; }
    let ra = parse_item(&mut buf_a, &mut cb, kind);
    unsafe { FRAG_POS = split; FRAG_REFILLS = 0; }
    let rb = parse_item(&mut buf_b, &mut cb, kind);
    assert!(ra == rb);
    core::mem::forget(buf_a);
    core::mem::forget(buf_b);
    (ra.is_ok(), unsafe { FRAG_REFILLS })
}

/// Lemma A: the decoders are prefix-monotone. On a prefix of the record they either ask for more
/// (UnexpectedEnd) or return exactly what they return on the whole record (same item, same consumed
/// count). Together with the read_more contract this makes the outcome of the retry loops of
/// read_kind/read_item independent of where the stream is cut.
fn decode_prefix_monotone<const N: usize>(kind: item::Kind) {
    decode_prefix_monotone_with::<0, N, N>(kind, []);
}

/// record = concrete `head` (e.g. the UUID of an extension record) followed by symbolic bytes; T = H + N
fn decode_prefix_monotone_with<const H: usize, const N: usize, const T: usize>(kind: item::Kind, head: [u8; H]) {
    let sym: [u8; N] = kani::any();
    let mut rec = [0u8; T];
    let mut i = 0;
    while i < H {
        rec[i] = head[i];
        i += 1;
    }
    let mut i = 0;
    while i < N {
        rec[H + i] = sym[i];
        i += 1;
    }
    let k: usize = kani::any();
    kani::assume(k <= T);
    let full = {
        let mut p = Unpacker::new(&rec[..]);
        match kind.decode_rest(&mut p) {
            Ok(it) => Ok((fitem_summary(&it), fitem_bytes(&it), p.num_bytes_read())),
            Err(MaybeEnd::UnexpectedEnd) => Err(1u8),
            Err(MaybeEnd::Err(_)) => Err(2u8),
        }
    };
    let part = {
        let mut p = Unpacker::new(&rec[..k]);
        match kind.decode_rest(&mut p) {
            Ok(it) => Ok((fitem_summary(&it), fitem_bytes(&it), p.num_bytes_read())),
            Err(MaybeEnd::UnexpectedEnd) => Err(1u8),
            Err(MaybeEnd::Err(_)) => Err(2u8),
        }
    };
    assert!(part == Err(1) || part == full);
    // and a complete record is not asked to continue: if the whole decodes, every prefix that
    // contains the consumed bytes decodes too
    if let Ok((_, _, c)) = full {
        assert!(k < c || part == full);
    }
    kani::cover!(part == Err(1) && full.is_ok());
    kani::cover!(part.is_ok() && k < T);
}

#[kani::proof]
#[kani::unwind(9)]
fn c17_decode_prefix_player_diff() {
    decode_prefix_monotone::<6>(item::Kind::PlayerDiff(1));
}

#[kani::proof]
#[kani::unwind(9)]
fn c17_decode_prefix_player_new() {
    decode_prefix_monotone::<6>(item::Kind::PlayerNew(2));
}

#[kani::proof]
#[kani::unwind(8)]
fn c17_decode_prefix_tick_skip() {
    decode_prefix_monotone::<5>(item::Kind::TickSkip);
}

#[kani::proof]
#[kani::unwind(8)]
fn c17_decode_prefix_join() {
    decode_prefix_monotone::<5>(item::Kind::Join);
}

#[kani::proof]
#[kani::unwind(8)]
fn c17_decode_prefix_drop() {
    decode_prefix_monotone::<5>(item::Kind::Drop);
}

#[kani::proof]
#[kani::unwind(8)]
fn c17_decode_prefix_message() {
    decode_prefix_monotone::<5>(item::Kind::Message);
}

#[kani::proof]
#[kani::unwind(15)]
fn c17_decode_prefix_input_new() {
    decode_prefix_monotone::<12>(item::Kind::InputNew);
}

#[kani::proof]
#[kani::unwind(8)]
fn c17_decode_prefix_console_command() {
    decode_prefix_monotone::<5>(item::Kind::ConsoleCommand);
}

#[kani::proof]
#[kani::unwind(8)]
#[kani::stub(Buffer::read_more, Buffer::verif_read_more_model)]
fn c17_frag_item_player_diff_bytewise() {
    let (ok, refills) = frag_item::<4>(item::Kind::PlayerDiff(1), 0, 1);
    kani::cover!(ok && refills >= 2);
}

#[kani::proof]
#[kani::unwind(8)]
#[kani::stub(Buffer::read_more, Buffer::verif_read_more_model)]
fn c17_frag_item_player_diff_two_piece() {
    frag_item::<3>(item::Kind::PlayerDiff(1), 0, usize::MAX);
    frag_item::<3>(item::Kind::PlayerDiff(1), 1, usize::MAX);
    let (ok, refills) = frag_item::<3>(item::Kind::PlayerDiff(1), 2, usize::MAX);
    kani::cover!(ok && refills == 1);
}

#[kani::proof]
#[kani::unwind(8)]
#[kani::stub(Buffer::read_more, Buffer::verif_read_more_model)]
fn c17_frag_item_player_new_bytewise() {
    let (ok, refills) = frag_item::<4>(item::Kind::PlayerNew(2), 0, 1);
    kani::cover!(ok && refills >= 2);
}

#[kani::proof]
#[kani::unwind(8)]
#[kani::stub(Buffer::read_more, Buffer::verif_read_more_model)]
fn c17_frag_item_player_new_two_piece() {
    frag_item::<3>(item::Kind::PlayerNew(2), 0, usize::MAX);
    frag_item::<3>(item::Kind::PlayerNew(2), 1, usize::MAX);
    let (ok, refills) = frag_item::<3>(item::Kind::PlayerNew(2), 2, usize::MAX);
    kani::cover!(ok && refills == 1);
}

#[kani::proof]
#[kani::unwind(8)]
#[kani::stub(Buffer::read_more, Buffer::verif_read_more_model)]
fn c17_frag_item_tick_skip_bytewise() {
    let (ok, refills) = frag_item::<4>(item::Kind::TickSkip, 0, 1);
    kani::cover!(ok && refills >= 2);
}

#[kani::proof]
#[kani::unwind(8)]
#[kani::stub(Buffer::read_more, Buffer::verif_read_more_model)]
fn c17_frag_item_tick_skip_two_piece() {
    frag_item::<3>(item::Kind::TickSkip, 0, usize::MAX);
    frag_item::<3>(item::Kind::TickSkip, 1, usize::MAX);
    let (ok, refills) = frag_item::<3>(item::Kind::TickSkip, 2, usize::MAX);
    kani::cover!(ok && refills == 1);
}

#[kani::proof]
#[kani::unwind(8)]
#[kani::stub(Buffer::read_more, Buffer::verif_read_more_model)]
fn c17_frag_item_join_bytewise() {
    let (ok, refills) = frag_item::<4>(item::Kind::Join, 0, 1);
    kani::cover!(ok && refills >= 2);
}

#[kani::proof]
#[kani::unwind(8)]
#[kani::stub(Buffer::read_more, Buffer::verif_read_more_model)]
fn c17_frag_item_join_two_piece() {
    frag_item::<3>(item::Kind::Join, 0, usize::MAX);
    frag_item::<3>(item::Kind::Join, 1, usize::MAX);
    let (ok, refills) = frag_item::<3>(item::Kind::Join, 2, usize::MAX);
    kani::cover!(ok && refills == 1);
}

#[kani::proof]
#[kani::unwind(8)]
#[kani::stub(Buffer::read_more, Buffer::verif_read_more_model)]
fn c17_frag_item_drop_bytewise() {
    let (ok, refills) = frag_item::<4>(item::Kind::Drop, 0, 1);
    kani::cover!(ok && refills >= 2);
}

#[kani::proof]
#[kani::unwind(8)]
#[kani::stub(Buffer::read_more, Buffer::verif_read_more_model)]
fn c17_frag_item_drop_two_piece() {
    frag_item::<3>(item::Kind::Drop, 0, usize::MAX);
    frag_item::<3>(item::Kind::Drop, 1, usize::MAX);
    let (ok, refills) = frag_item::<3>(item::Kind::Drop, 2, usize::MAX);
    kani::cover!(ok && refills == 1);
}

#[kani::proof]
#[kani::unwind(8)]
#[kani::stub(Buffer::read_more, Buffer::verif_read_more_model)]
fn c17_frag_item_message_bytewise() {
    let (ok, refills) = frag_item::<4>(item::Kind::Message, 0, 1);
    kani::cover!(ok && refills >= 2);
}

#[kani::proof]
#[kani::unwind(8)]
#[kani::stub(Buffer::read_more, Buffer::verif_read_more_model)]
fn c17_frag_item_message_two_piece() {
    frag_item::<3>(item::Kind::Message, 0, usize::MAX);
    frag_item::<3>(item::Kind::Message, 1, usize::MAX);
    let (ok, refills) = frag_item::<3>(item::Kind::Message, 2, usize::MAX);
    kani::cover!(ok && refills == 1);
}

#[kani::proof]
#[kani::unwind(8)]
#[kani::stub(Buffer::read_more, Buffer::verif_read_more_model)]
fn c17_frag_read_player_diff_bytewise() {
    // the whole Reader::read step (kind, tick logic, item, position update) on a PLAYER_DIFF record of
    // a known player, completely buffered vs delivered byte by byte: same item, same reader state
    let rec: [u8; 3] = kani::any();
    kani::assume(rec[0] < 4);
    let tick: i32 = kani::any();
    let x: i32 = kani::any();
    let y: i32 = kani::any();
    let (mut buf_a, mut buf_b) = frag_setup(rec, 0, 1);
    let mut cb = TailCb { data: [0; 8], len: 0, done: false };
    let mut ra = reader_state(tick, None, true, None);
    ra.players.insert(rec[0] as usize, Pos { x: x, y: y });
    let mut rb = reader_state(tick, None, true, None);
    rb.players.insert(rec[0] as usize, Pos { x: x, y: y });
    unsafe { FRAG_POS = FRAG_LEN; }
    let resa = do_read(&mut ra, &mut cb, &mut buf_a);
    unsafe { FRAG_POS = 0; FRAG_REFILLS = 0; }
    let resb = do_read(&mut rb, &mut cb, &mut buf_b);
    assert!(resa == resb);
    assert!(ra.tick == rb.tick && ra.in_tick == rb.in_tick && ra.prev_player_cid == rb.prev_player_cid);
    assert!(buf_a.offset == buf_b.offset);
    let pa = ra.player_pos(rec[0] as i32);
    let pb = rb.player_pos(rec[0] as i32);
    assert!(pa.map(|p| (p.x, p.y)) == pb.map(|p| (p.x, p.y)));
    kani::cover!(matches!(resa, Ok((4, _, _, _))) && unsafe { FRAG_REFILLS } == 3);
    kani::cover!(resa.is_err());
    core::mem::forget(ra);
    core::mem::forget(rb);
    core::mem::forget(buf_a);
    core::mem::forget(buf_b);
}

#[kani::proof]
#[kani::unwind(8)]
fn c17_tick_skip_step_wide() {
    // TICK_SKIP with any dt the format can express (variable-length integer of up to 5 bytes, decoded
    // for the oracle by the packer that C08 decides): tick += dt + 1 exactly, overflow and negative dt
    // are errors, never a panic or a wrapped tick
    let tick: i32 = kani::any();
    let in_tick: bool = kani::any();
    let d: [u8; 5] = kani::any();
    let bytes = [0x41u8, d[0], d[1], d[2], d[3], d[4]];
    let dt = {
        let mut u = Unpacker::new(&bytes[1..]);
        match u.read_int(&mut libtw2_warn::Ignore) {
            Ok(v) => v,
            Err(_) => {
                kani::assume(false);
                0
            }
        }
    };
    let mut buf = buffer_with(&bytes, 6);
    let mut r = reader_state(tick, kani::any(), in_tick, None);
    let mut cb = TailCb { data: [0; 8], len: 0, done: false };
    let res = do_read(&mut r, &mut cb, &mut buf);
    let target = tick as i64 + 1 + dt as i64;
    match res {
        Ok((2, t, _, _)) => assert!(in_tick && t == tick && dt >= 0 && r.tick as i64 == target),
        Ok((1, t, _, _)) => assert!(!in_tick && dt >= 0 && t as i64 == target && r.tick == t),
        Ok(_) => assert!(false),
        Err(_) => assert!(dt < 0 || target > i32::MAX as i64),
    }
    if res.is_ok() {
        assert!(r.tick > tick);
    }
    kani::cover!(res.is_ok() && dt > 1_000_000);
    kani::cover!(res.is_err() && dt == i32::MAX);
    core::mem::forget(r);
    core::mem::forget(buf);
}

fn tick_skip_boundary(dt: i32, enc: &[u8]) {
    // TICK_SKIP with a concrete multi-byte dt (variable-length encoding per doc/int.md, checked against
    // the real decoder below) from a symbolic state
    let tick: i32 = kani::any();
    let in_tick: bool = kani::any();
    let mut bytes = [0u8; 8];
    bytes[0] = 0x41;
    let n = enc.len();
    let mut i = 0;
    while i < n {
        bytes[1 + i] = enc[i];
        i += 1;
    }
    assert!(Unpacker::new(&bytes[1..1 + n]).read_int(&mut libtw2_warn::Ignore) == Ok(dt));
    let mut buf = buffer_with(&bytes, 1 + n);
    let mut r = reader_state(tick, kani::any(), in_tick, None);
    let mut cb = TailCb { data: [0; 8], len: 0, done: false };
    let res = do_read(&mut r, &mut cb, &mut buf);
    let target = tick as i64 + 1 + dt as i64;
    match res {
        Ok((2, t, _, _)) => assert!(in_tick && t == tick && r.tick as i64 == target),
        Ok((1, t, _, _)) => assert!(!in_tick && t as i64 == target && r.tick == t),
        Ok(_) => assert!(false),
        Err(1) => assert!(target > i32::MAX as i64),
        Err(_) => assert!(false),
    }
    if res.is_ok() {
        assert!(r.tick > tick && r.prev_player_cid.is_none());
    }
    core::mem::forget(r);
    core::mem::forget(buf);
}

#[kani::proof]
#[kani::unwind(8)]
fn c17_tick_skip_step_dt_max() {
    // the largest dt the format can express: always an overflow error unless tick is very negative -
    // never a panic, never a wrapped tick
    tick_skip_boundary(i32::MAX, &[0xbf, 0xff, 0xff, 0xff, 0x0f]);
}

#[kani::proof]
#[kani::unwind(8)]
fn c17_tick_skip_step_dt_multibyte() {
    tick_skip_boundary(64, &[0x80, 0x01]);
    tick_skip_boundary(i32::MAX - 1, &[0xbe, 0xff, 0xff, 0xff, 0x0f]);
}
