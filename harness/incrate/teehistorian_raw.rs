// C17 harnesses, include!()-ed into teehistorian/src/raw.rs under cfg(kani).
// Real code driven: Reader::read, Buffer::{read_kind, read_item, read_more}, item::Kind::decode,
// Kind::decode_rest, CallbackExt::read_buffer_ref - one `read` call from a symbolic reader state
// (the inductive step for streams of any length), JSON header not involved (Reader::empty).

/// callback that delivers a prepared tail once, then reports end of stream
struct TailCb {
    data: [u8; 8],
    len: usize,
    done: bool,
}
impl Callback for TailCb {
    type Error = ();
    fn read_at_most(&mut self, buffer: &mut [u8]) -> Result<Option<usize>, ()> {
        if self.done || self.len == 0 {
            return Ok(None);
        }
        self.done = true;
        let n = if self.len < buffer.len() { self.len } else { buffer.len() };
        let mut i = 0;
        while i < n {
            buffer[i] = self.data[i];
            i += 1;
        }
        Ok(Some(n))
    }
}

fn buffer_with(bytes: &[u8], n: usize) -> Buffer {
    let mut v = Vec::with_capacity(16);
    let mut i = 0;
    while i < n {
        v.push(bytes[i]);
        i += 1;
    }
    Buffer { offset: 0, buffer: v }
}

fn reader_state(tick: i32, prev: Option<i32>, in_tick: bool, next: Option<item::Kind>) -> Reader {
    let mut r = Reader::empty(format::Version::V2);
    r.tick = tick;
    r.prev_player_cid = prev;
    r.in_tick = in_tick;
    r.next_item_kind = next;
    r.players = VecMap::with_capacity(4);
    r.inputs = VecMap::with_capacity(4);
    r
}

/// (kind, a, b, c): 0 none(finish), 1 TickStart(t), 2 TickEnd(t), 3 PlayerNew, 4 PlayerChange(cid,x,y),
/// 5 PlayerOld, 6 Join, 7 other; errors: 1 TickOverflow, 2 other
fn do_read(r: &mut Reader, cb: &mut TailCb, buf: &mut Buffer) -> Result<(u8, i32, i32, i32), u8> {
    match r.read(cb, buf) {
        Ok(it) => Ok(item_summary(&it)),
        Err(Error::Teehistorian(format::Error::TickOverflow)) => Err(1),
        Err(_) => Err(2),
    }
}

#[kani::proof]
#[kani::unwind(8)]
fn c17_tick_skip_step() {
    // one TICK_SKIP record from any state: the tick advances by dt + 1 and the remembered player id
    // is cleared (doc/teehistorian.md pseudo-code); tick overflow is an error
    let tick: i32 = kani::any();
    let prev: Option<i32> = kani::any();
    let in_tick: bool = kani::any();
    let dt_byte: u8 = kani::any();
    kani::assume(dt_byte < 64);
    let bytes = [0x41u8, dt_byte]; // -2 = TICK_SKIP, dt
    let mut buf = buffer_with(&bytes, 2);
    let mut r = reader_state(tick, prev, in_tick, None);
    let mut cb = TailCb { data: [0; 8], len: 0, done: false };
    let res = do_read(&mut r, &mut cb, &mut buf);
    match res {
        Ok((2, t, _, _)) => {
            assert!(in_tick && t == tick);
            assert!(r.tick as i64 == tick as i64 + 1 + dt_byte as i64);
            assert!(!r.in_tick);
            assert!(r.prev_player_cid.is_none());
        }
        Ok((1, t, _, _)) => {
            assert!(!in_tick);
            assert!(t as i64 == tick as i64 + 1 + dt_byte as i64 && r.tick == t);
            assert!(r.in_tick);
            assert!(r.prev_player_cid.is_none());
        }
        Ok(_) => assert!(false),
        Err(1) => {
            assert!(tick as i64 + 1 + dt_byte as i64 > i32::MAX as i64);
        }
        Err(_) => assert!(false),
    }
    kani::cover!(matches!(res, Ok((2, _, _, _))) && prev.is_some());
    kani::cover!(matches!(res, Ok((1, _, _, _))));
    kani::cover!(res.is_err());
    core::mem::forget(r);
    core::mem::forget(buf);
}

#[kani::proof]
#[kani::unwind(8)]
fn c17_player_record_tick_step() {
    // a pending player record (kind already parsed) from any state: the implicit tick rule of the
    // documentation - the tick advances by one iff the remembered id is >= this id; tick boundaries
    // are reported as TickEnd(old) / TickStart(new) around it
    let tick: i32 = kani::any();
    let prev: Option<i32> = kani::any();
    let in_tick: bool = kani::any();
    let cid: i32 = kani::any();
    kani::assume(0 <= cid && cid < 4);
    let xy: [u8; 2] = kani::any();
    kani::assume(xy[0] < 128 && xy[1] < 128);
    let mut buf = buffer_with(&xy, 2);
    let mut r = reader_state(tick, prev, in_tick, Some(item::Kind::PlayerNew(cid)));
    let mut cb = TailCb { data: [0; 8], len: 0, done: false };
    let res = do_read(&mut r, &mut cb, &mut buf);
    let implicit = prev.map(|p| p >= cid).unwrap_or(false);
    match res {
        Ok((1, t, _, _)) => {
            assert!(!in_tick && t == tick && r.tick == tick && r.in_tick);
            // the record stays pending
            assert!(r.next_item_kind == Some(item::Kind::PlayerNew(cid)));
            assert!(buf.offset == 0);
        }
        Ok((2, t, _, _)) => {
            assert!(in_tick && implicit);
            assert!(t == tick && r.tick as i64 == tick as i64 + 1);
            assert!(!r.in_tick && r.prev_player_cid.is_none());
            assert!(r.next_item_kind == Some(item::Kind::PlayerNew(cid)));
        }
        Ok((3, c, _, _)) => {
            assert!(in_tick && !implicit);
            assert!(c == cid && r.tick == tick);
            assert!(r.prev_player_cid == Some(cid));
            assert!(buf.offset == 2);
        }
        Ok(_) => assert!(false),
        Err(1) => assert!(tick == i32::MAX && implicit && in_tick),
        Err(_) => assert!(false),
    }
    kani::cover!(matches!(res, Ok((2, _, _, _))));
    kani::cover!(matches!(res, Ok((3, _, _, _))));
    core::mem::forget(r);
    core::mem::forget(buf);
}

#[kani::proof]
#[kani::unwind(8)]
fn c17_player_diff_running_sum() {
    // positions are wrapping running sums of the recorded differences
    let x: i32 = kani::any();
    let y: i32 = kani::any();
    let d: [u8; 2] = kani::any();
    kani::assume(d[0] < 128 && d[1] < 128);
    let mut buf = buffer_with(&d, 2);
    let mut r = reader_state(kani::any(), None, true, Some(item::Kind::PlayerDiff(1)));
    r.players.insert(1, Pos { x: x, y: y });
    let mut cb = TailCb { data: [0; 8], len: 0, done: false };
    let dx = if d[0] & 0x40 != 0 { !((d[0] & 0x3f) as i32) } else { (d[0] & 0x3f) as i32 };
    let dy = if d[1] & 0x40 != 0 { !((d[1] & 0x3f) as i32) } else { (d[1] & 0x3f) as i32 };
    match do_read(&mut r, &mut cb, &mut buf) {
        Ok((4, c, px, py)) => {
            assert!(c == 1);
            assert!(px == x.wrapping_add(dx) && py == y.wrapping_add(dy));
            let p = r.player_pos(1).unwrap();
            assert!(p.x == px && p.y == py);
        }
        _ => assert!(false),
    }
    core::mem::forget(r);
    core::mem::forget(buf);
}

fn item_summary(it: &Option<Item>) -> (u8, i32, i32, i32) {
    match it {
        None => (0, 0, 0, 0),
        Some(Item::TickStart(t)) => (1, *t, 0, 0),
        Some(Item::TickEnd(t)) => (2, *t, 0, 0),
        Some(Item::PlayerNew(p)) => (3, p.cid, p.pos.x, p.pos.y),
        Some(Item::PlayerChange(p)) => (4, p.cid, p.pos.x, p.pos.y),
        Some(Item::PlayerOld(p)) => (5, p.cid, p.pos.x, p.pos.y),
        Some(Item::Join(j)) => (6, j.cid, 0, 0),
        Some(_) => (7, 0, 0, 0),
    }
}

fn fitem_summary(it: &format::Item) -> (u8, i32, i32, i32) {
    match it {
        format::Item::PlayerDiff(i) => (1, i.cid, i.dx, i.dy),
        format::Item::PlayerNew(i) => (2, i.cid, i.x, i.y),
        format::Item::PlayerOld(i) => (3, i.cid, 0, 0),
        format::Item::TickSkip(i) => (4, i.dt as i32, 0, 0),
        format::Item::Finish(_) => (5, 0, 0, 0),
        format::Item::Join(i) => (6, i.cid, 0, 0),
        format::Item::Drop(i) => (7, i.cid, i.reason.len() as i32, 0),
        _ => (8, 0, 0, 0),
    }
}

/// parse one record (kind, then body) through the Buffer layer - the only code whose behaviour can
/// depend on how the stream is cut; Reader::read is a function of (state, kind, item) beyond it
fn parse_record(buf: &mut Buffer, cb: &mut TailCb) -> Result<((u8, i32, i32, i32), usize), u8> {
    let kind = match buf.read_kind(cb, format::Version::V2) {
        Ok(k) => k,
        Err(Error::Teehistorian(format::Error::UnexpectedEnd)) => return Err(1),
        Err(_) => return Err(2),
    };
    let s = match buf.read_item(cb, kind) {
        Ok(it) => fitem_summary(&it),
        Err(Error::Teehistorian(format::Error::UnexpectedEnd)) => return Err(3),
        Err(_) => return Err(4),
    };
    Ok((s, buf.offset))
}

fn frag_step<const N: usize>(rec: [u8; N], split: usize) {
    // the same record bytes, once completely buffered and once cut at `split` (prefix buffered, the
    // rest delivered by the callback): same item or same error class, same consumed byte count
    let mut buf_a = buffer_with(&rec, N);
    let mut cba = TailCb { data: [0; 8], len: 0, done: false };
    let ra = parse_record(&mut buf_a, &mut cba);
    let mut buf_b = buffer_with(&rec, split);
    let mut tail = [0u8; 8];
    let mut i = split;
    while i < N {
        tail[i - split] = rec[i];
        i += 1;
    }
    let mut cbb = TailCb { data: tail, len: N - split, done: false };
    let rb = parse_record(&mut buf_b, &mut cbb);
    assert!(ra == rb);
    kani::cover!(ra.is_ok());
    kani::cover!(ra.is_err());
    core::mem::forget(buf_a);
    core::mem::forget(buf_b);
}

fn kind_code(k: &item::Kind) -> (u8, i32) {
    match *k {
        item::Kind::PlayerDiff(c) => (1, c),
        item::Kind::Finish => (2, 0),
        item::Kind::TickSkip => (3, 0),
        item::Kind::PlayerNew(c) => (4, c),
        item::Kind::PlayerOld(c) => (5, c),
        item::Kind::InputDiff => (6, 0),
        item::Kind::InputNew => (7, 0),
        item::Kind::Message => (8, 0),
        item::Kind::Join => (9, 0),
        item::Kind::Drop => (10, 0),
        item::Kind::ConsoleCommand => (11, 0),
        item::Kind::Ex => (12, 0),
    }
}

fn parse_kind(buf: &mut Buffer, cb: &mut TailCb) -> Result<((u8, i32), usize), u8> {
    match buf.read_kind(cb, format::Version::V2) {
        Ok(k) => Ok((kind_code(&k), buf.offset)),
        Err(Error::Teehistorian(format::Error::UnexpectedEnd)) => Err(1),
        Err(_) => Err(2),
    }
}

#[kani::proof]
#[kani::unwind(8)]
fn c17_frag_record_kind() {
    // the record-kind prefix (one or two variable-length integers) of every 3-byte stream, completely
    // buffered vs cut at every position with the rest delivered by the callback: same kind or same
    // error class and the same consumed byte count. This exercises the commit-offset-on-success /
    // refill-and-retry logic (Buffer::read_kind, read_more) that read_item shares.
    let rec: [u8; 3] = kani::any();
    let split: usize = kani::any();
    kani::assume(split <= 3);
    let mut buf_a = buffer_with(&rec, 3);
    let mut cba = TailCb { data: [0; 8], len: 0, done: false };
    let ra = parse_kind(&mut buf_a, &mut cba);
    let mut buf_b = buffer_with(&rec, split);
    let mut tail = [0u8; 8];
    let mut i = split;
    while i < 3 {
        tail[i - split] = rec[i];
        i += 1;
    }
    let mut cbb = TailCb { data: tail, len: 3 - split, done: false };
    let rb = parse_kind(&mut buf_b, &mut cbb);
    assert!(ra == rb);
    kani::cover!(matches!(ra, Ok(((4, _), 3))));
    kani::cover!(ra.is_err());
    core::mem::forget(buf_a);
    core::mem::forget(buf_b);
}

#[kani::proof]
#[kani::unwind(8)]
fn c17_tick_skip_clears_cid_witness() {
    // concrete instance of c17_tick_skip_step (cheap to replay natively): in tick 5 after a record of
    // player 3, TICK_SKIP dt=0 ends tick 5, moves to tick 6 and forgets the player id, so that a
    // following record of a lower id does not advance the tick again (doc/teehistorian.md)
    let bytes = [0x41u8, 0];
    let mut buf = buffer_with(&bytes, 2);
    let mut r = reader_state(5, Some(3), true, None);
    let mut cb = TailCb { data: [0; 8], len: 0, done: false };
    let res = do_read(&mut r, &mut cb, &mut buf);
    assert!(res == Ok((2, 5, 0, 0)));
    assert!(r.tick == 6);
    assert!(r.prev_player_cid.is_none());
    core::mem::forget(r);
    core::mem::forget(buf);
}

