// C20 harnesses, include!()-ed into net/src/net.rs under cfg(kani).
// Real code driven: Net::{feed, feed_impl, send, flush, disconnect, ignore, tick, connect},
// Peers::{new_peer, pid_from_addr, remove_peer}, ReceivePacket::{connected, next}, the
// ConnectionCallback wrapper. The per-connection behaviour is C01-C04's subject: here the
// Connection methods are recording stand-ins (which connection object, through which address).

pub struct NCb {
    pub sends: u32,
    pub last_addr: u8,
    pub last_byte: u8,
    /// the socket refuses the datagram (send error)
    pub fail: bool,
}
impl Callback<u8> for NCb {
    type Error = ();
    fn secure_random(&mut self, _: &mut [u8]) {}
    fn send(&mut self, addr: u8, data: &[u8]) -> Result<(), ()> {
        self.sends += 1;
        self.last_addr = addr;
        self.last_byte = if data.len() > 0 { data[0] } else { 0 };
        if self.fail {
            return Err(());
        }
        Ok(())
    }
    fn time(&mut self) -> Timestamp {
        Timestamp::from_usecs_since_epoch(0)
    }
}

pub struct NWarn(pub u32);
impl Warn<Warning<u8>> for NWarn {
    fn warn(&mut self, _: Warning<u8>) {
        self.0 += 1;
    }
}

const ADDR_A: u8 = 1;
const ADDR_B: u8 = 2;
const TAG_A: u64 = 0xa1;
const TAG_B: u64 = 0xb2;

/// endpoint with two live peers A (id 0) and B (id 1) whose connections are tagged; built through
/// the real Peers::new_peer (values are constructed in place: moving a ~7 KB Connection with its
/// state enum through Option<Peer> made CBMC's encoding explode)
fn two_peers(server: bool, _pid_a: u32, _pid_b: u32) -> Net<u8> {
    let mut net: Net<u8> = if server { Net::server() } else { Net::client() };
    // room for every peer of the harness: no reallocation (which would move the ~7 KB peers)
    net.peers.peers = PeerMap::with_capacity(4);
    {
        let (pa, peer_a) = net.peers.new_peer(ADDR_A, false);
        assert!(pa.0 == 0);
        peer_a.conn.verif_set_tag(TAG_A);
    }
    {
        let (pb, peer_b) = net.peers.new_peer(ADDR_B, false);
        assert!(pb.0 == 1);
        peer_b.conn.verif_set_tag(TAG_B);
    }
    net
}

fn b_untouched(net: &Net<u8>, pid_b: u32) -> bool {
    match net.peers.get(PeerId(pid_b)) {
        Some(p) => p.addr == ADDR_B && p.conn.verif_tag() == TAG_B,
        None => false,
    }
}

#[kani::proof]
#[kani::unwind(5)]
fn c20_peer_ids_fresh() {
    // a new peer gets an id distinct from every live id, for every counter value (wrap-around
    // included); lookup by address finds exactly the peer with that address
    // peer ids are map keys (container shape): concrete; addresses, data and results symbolic
    let id_a: u32 = 0;
    let id_b: u32 = 1;
    let mut net = two_peers(true, id_a, id_b);
    net.peers.next_peer_id = PeerId(kani::any());
    let (pid, _) = net.peers.new_peer(7, false);
    assert!(pid.0 != id_a && pid.0 != id_b);
    assert!(net.peers.pid_from_addr(ADDR_A) == Some(PeerId(id_a)));
    assert!(net.peers.pid_from_addr(ADDR_B) == Some(PeerId(id_b)));
    assert!(net.peers.pid_from_addr(7) == Some(pid));
    assert!(net.peers.pid_from_addr(9).is_none());
    kani::cover!(pid.0 == 2);
    core::mem::forget(net);
}

fn route_feed(event: u8) {
    // a datagram from A's address reaches exactly A's connection, with a callback that sends to A's
    // address; the events are labelled with A's id; B is never touched; A is removed exactly when a
    // disconnect event was returned
    // peer ids are map keys (container shape): concrete; addresses, data and results symbolic
    let id_a: u32 = 0;
    let id_b: u32 = 1;
    let mut net = two_peers(kani::any(), id_a, id_b);
    Connection::verif_set_disconnect_event(event);
    let mut cb = NCb { sends: 0, last_addr: 0, last_byte: 0, fail: false };
    let mut w = NWarn(0);
    let data: [u8; 3] = kani::any();
    let mut buf = [0u8; 8];
    let first;
    {
        let (mut rp, res) = net.feed(&mut cb, &mut w, ADDR_A, &data, &mut buf[..]);
        assert!(res.is_ok());
        first = rp.next();
    }
    let (calls, tag) = Connection::verif_calls();
    assert!(calls == 1 && tag == TAG_A);
    assert!(cb.sends == 1 && cb.last_addr == ADDR_A && cb.last_byte == TAG_A as u8);
    match (event, first) {
        (0, None) => {}
        (1, Some(ChunkOrEvent::Ready(p))) => assert!(p == PeerId(id_a)),
        (2, Some(ChunkOrEvent::Disconnect(p, _))) => assert!(p == PeerId(id_a)),
        (3, Some(ChunkOrEvent::Connless(c))) => assert!(c.addr == ADDR_A && c.pid == Some(PeerId(id_a))),
        _ => assert!(false),
    }
    assert!(net.peers.get(PeerId(id_a)).is_some() == (event != 2));
    assert!(b_untouched(&net, id_b));
    assert!(w.0 == 0);
    core::mem::forget(net);
}

#[kani::proof]
#[kani::unwind(5)]
#[kani::stub(crate::connection::Connection::feed, crate::connection::Connection::verif_feed_stub)]
fn c20_route_feed_none() {
    route_feed(0);
}
#[kani::proof]
#[kani::unwind(5)]
#[kani::stub(crate::connection::Connection::feed, crate::connection::Connection::verif_feed_stub)]
fn c20_route_feed_ready() {
    route_feed(1);
}
#[kani::proof]
#[kani::unwind(5)]
#[kani::stub(crate::connection::Connection::feed, crate::connection::Connection::verif_feed_stub)]
fn c20_route_feed_disconnect() {
    route_feed(2);
}

#[kani::proof]
#[kani::unwind(5)]
#[kani::stub(crate::connection::Connection::send, crate::connection::Connection::verif_send_stub)]
#[kani::stub(crate::connection::Connection::flush, crate::connection::Connection::verif_flush_stub)]
fn c20_route_send_flush() {
    // peer ids are map keys (container shape): concrete; addresses, data and results symbolic
    let id_a: u32 = 0;
    let id_b: u32 = 1;
    let mut net = two_peers(kani::any(), id_a, id_b);
    let mut cb = NCb { sends: 0, last_addr: 0, last_byte: 0, fail: false };
    let data: [u8; 2] = kani::any();
    let to_b: bool = kani::any();
    let pid = PeerId(if to_b { id_b } else { id_a });
    let do_flush: bool = kani::any();
    if do_flush {
        assert!(net.flush(&mut cb, pid).is_ok());
    } else {
        assert!(net.send(&mut cb, Chunk { pid: pid, vital: kani::any(), data: &data }).is_ok());
    }
    let (calls, tag) = Connection::verif_calls();
    assert!(calls == 1 && tag == if to_b { TAG_B } else { TAG_A });
    assert!(cb.sends == 1 && cb.last_addr == if to_b { ADDR_B } else { ADDR_A });
    assert!(net.peers.get(PeerId(id_a)).is_some() && net.peers.get(PeerId(id_b)).is_some());
    core::mem::forget(net);
}

#[kani::proof]
#[kani::unwind(5)]
#[kani::stub(crate::connection::Connection::disconnect, crate::connection::Connection::verif_disconnect_stub)]
fn c20_disconnect_removes_only_that_peer() {
    // peer ids are map keys (container shape): concrete; addresses, data and results symbolic
    let id_a: u32 = 0;
    let id_b: u32 = 1;
    let mut net = two_peers(kani::any(), id_a, id_b);
    // any state but Unconnected permits disconnect(); Connecting carries no payload (cheap to set)
    net.peers.get_mut(PeerId(id_a)).unwrap().conn.verif_set_connecting();
    let mut cb = NCb { sends: 0, last_addr: 0, last_byte: 0, fail: false };
    let by_ignore: bool = kani::any();
    // the peer is gone afterwards whether or not the close datagram could be handed to the socket
    cb.fail = kani::any();
    if by_ignore {
        net.ignore(PeerId(id_a));
    } else {
        let r = net.disconnect(&mut cb, PeerId(id_a), b"x");
        assert!(r.is_ok() == !cb.fail);
        assert!(cb.sends == 1 && cb.last_addr == ADDR_A);
        kani::cover!(cb.fail, "send error during disconnect");
    }
    // gone afterwards; B untouched; a datagram from A's address is now handled statelessly
    assert!(net.peers.get(PeerId(id_a)).is_none());
    assert!(net.peers.pid_from_addr(ADDR_A).is_none());
    assert!(b_untouched(&net, id_b));
    core::mem::forget(net);
}

#[kani::proof]
#[kani::unwind(5)]
#[kani::stub(crate::connection::Connection::tick, crate::connection::Connection::verif_tick_stub)]
fn c20_tick_visits_each_peer_once() {
    // peer ids are map keys (container shape): concrete; addresses, data and results symbolic
    let id_a: u32 = 0;
    let id_b: u32 = 1;
    let mut net = two_peers(kani::any(), id_a, id_b);
    let mut cb = NCb { sends: 0, last_addr: 0, last_byte: 0, fail: false };
    {
        let mut t = net.tick(&mut cb);
        assert!(t.next().is_none());
    }
    let (calls, _) = Connection::verif_calls();
    assert!(calls == 2 && cb.sends == 2);
    // the last call went to B through B's address (insertion order), never crossing tag and address
    assert!((cb.last_addr == ADDR_B && cb.last_byte == TAG_B as u8) || (cb.last_addr == ADDR_A && cb.last_byte == TAG_A as u8));
    core::mem::forget(net);
}

fn unknown_addr(kind: u8) {
    // a datagram from an address without a peer, parsed (parser stand-in) as packet kind `kind` with
    // symbolic token/ack: a pending peer is created only for a connect request on an accepting
    // endpoint; nothing is ever sent; otherwise a warning and no change
    protocol::Packet::verif_set_kind(kind);
    let server: bool = kani::any();
    let mut net = two_peers(server, 0, 1);
    let mut cb = NCb { sends: 0, last_addr: 0, last_byte: 0, fail: false };
    let mut w = NWarn(0);
    let data: [u8; 3] = kani::any();
    let mut buf = [0u8; 8];
    let first;
    {
        let (mut rp, res) = net.feed(&mut cb, &mut w, 9, &data, &mut buf[..]);
        assert!(res.is_ok());
        first = rp.next();
    }
    assert!(cb.sends == 0);
    let (calls, _) = Connection::verif_calls();
    assert!(calls == 0);
    let new_pid = net.peers.pid_from_addr(9);
    match first {
        Some(ChunkOrEvent::Connect(p)) => {
            assert!(server && kind == 3);
            assert!(new_pid == Some(p) && p.0 == 2);
        }
        None => {
            assert!(new_pid.is_none());
            assert!(w.0 >= 1);
            assert!(!(server && kind == 3));
        }
        _ => assert!(false),
    }
    assert!(b_untouched(&net, 1));
    core::mem::forget(net);
}

#[kani::proof]
#[kani::unwind(5)]
#[kani::stub(crate::protocol::Packet::read, crate::protocol::Packet::verif_read_stub)]
fn c20_unknown_addr_connect() {
    unknown_addr(3);
}
#[kani::proof]
#[kani::unwind(5)]
#[kani::stub(crate::protocol::Packet::read, crate::protocol::Packet::verif_read_stub)]
fn c20_unknown_addr_chunks() {
    unknown_addr(2);
}
#[kani::proof]
#[kani::unwind(5)]
#[kani::stub(crate::protocol::Packet::read, crate::protocol::Packet::verif_read_stub)]
fn c20_unknown_addr_close() {
    unknown_addr(1);
}

#[kani::proof]
#[kani::unwind(5)]
#[kani::stub(crate::connection::Connection::disconnect, crate::connection::Connection::verif_disconnect_stub)]
fn c20_reject_removes_only_that_peer() {
    // rejecting a pending (still unconnected) incoming peer: exactly its connection is closed, through
    // its own address, and it is gone afterwards - also when the socket refuses the datagram
    let id_a: u32 = 0;
    let id_b: u32 = 1;
    let mut net = two_peers(true, id_a, id_b);
    let mut cb = NCb { sends: 0, last_addr: 0, last_byte: 0, fail: kani::any() };
    let r = net.reject(&mut cb, PeerId(id_a), b"no");
    assert!(r.is_ok() == !cb.fail);
    let (calls, tag) = Connection::verif_calls();
    assert!(calls == 1 && tag == TAG_A);
    assert!(cb.sends == 1 && cb.last_addr == ADDR_A);
    assert!(net.peers.get(PeerId(id_a)).is_none());
    assert!(net.peers.pid_from_addr(ADDR_A).is_none());
    assert!(b_untouched(&net, id_b));
    core::mem::forget(net);
}

#[kani::proof]
#[kani::unwind(5)]
fn c20_needs_tick_is_earliest_peer_deadline() {
    // the endpoint's deadline is the earliest deadline of its peers: a peer without a deadline (a
    // pending incoming connection) does not hide the deadline of an established one, and two
    // established peers report the earlier of their deadlines (real Connection::needs_tick)
    let id_a: u32 = 0;
    let id_b: u32 = 1;
    let mut net = two_peers(true, id_a, id_b);
    let ta: u64 = kani::any::<u64>() >> 1;
    let tb: u64 = kani::any::<u64>() >> 1;
    let b_online: bool = kani::any();
    {
        // "established" here = any state that reports a deadline (Connecting: its send timer)
        let a = net.peers.get_mut(PeerId(id_a)).unwrap();
        a.conn.verif_set_connecting();
        a.conn.verif_set_tag(ta);
    }
    {
        let b = net.peers.get_mut(PeerId(id_b)).unwrap();
        if b_online {
            b.conn.verif_set_connecting();
        }
        b.conn.verif_set_tag(tb);
    }
    let nt = net.needs_tick();
    let expect = if b_online && tb < ta { tb } else { ta };
    assert!(nt == Timeout::active(Timestamp::from_usecs_since_epoch(expect)));
    kani::cover!(!b_online);
    kani::cover!(b_online && tb < ta);
    core::mem::forget(net);
}
