// C13 harnesses, include!()-ed into snapshot/src/storage.rs under cfg(kani).
// Real code driven: Storage::{add_delta, set_delta_tick, add_snap, ack_tick, delta_tick}, on
// pre-states built field by field (VecDeque real, Snap/Delta over the container model).
// The world state per tick is one item (type 3, id 1) of one symbolic word.

use crate::format::TypeId;
use libtw2_packer::IntUnpacker;

pub struct WAny(pub u32);
impl Warn<Warning> for WAny {
    fn warn(&mut self, _: Warning) {
        self.0 += 1;
    }
}
impl Warn<WeirdNegativeDeltaTick> for WAny {
    fn warn(&mut self, _: WeirdNegativeDeltaTick) {
        self.0 += 1;
    }
}

fn one_item_snap(v: i32) -> Snap {
    let mut b = Builder::new();
    b.add_item(TypeId::Ordinal(3), 1, &[v]).unwrap();
    b.finish()
}

fn item_word(s: &Snap) -> Option<i32> {
    s.item(TypeId::Ordinal(3), 1).map(|d| d[0])
}

/// storage holding snapshots for ticks 10 (front, value v10) and 5 (back, value v5)
fn storage_10_5(v10: i32, v5: i32, ack: Option<i32>) -> Storage {
    let mut st = Storage::new();
    st.snaps = VecDeque::with_capacity(4);
    st.snaps.push_front(StoredSnap { snap: one_item_snap(v5), tick: 5 });
    st.snaps.push_front(StoredSnap { snap: one_item_snap(v10), tick: 10 });
    st.free = Default::default();
    st.ack_tick = ack;
    st
}

/// a delta (explicit sizes) that updates the item by the word `d`
fn update_delta(d: i32) -> Delta {
    let words = [0, 1, 0, 3, 1, 1, d];
    let mut u = IntUnpacker::new(&words);
    let mut delta = Delta::new();
    let mut w = crate::format::Warning::NonZeroPadding;
    let _ = &mut w;
    struct Ig;
    impl Warn<crate::format::Warning> for Ig {
        fn warn(&mut self, _: crate::format::Warning) {}
    }
    delta.read_from_ints(&mut Ig, |_| None, &mut u).unwrap();
    delta
}

fn stored_ticks_decreasing(st: &Storage) -> bool {
    let mut prev: Option<i32> = None;
    for s in st.snaps.iter() {
        if let Some(p) = prev {
            if !(s.tick < p) {
                return false;
            }
        }
        prev = Some(s.tick);
    }
    true
}

fn receiver_step<const DELTA_TICK: i32, const TICK: i32>() {
    let v10: i32 = kani::any();
    let v5: i32 = kani::any();
    let d: i32 = kani::any();
    let crc: i32 = kani::any();
    let old_ack: Option<i32> = if kani::any() { Some(10) } else { None };
    let mut st = storage_10_5(v10, v5, old_ack);
    let delta = update_delta(d);
    let mut w = WAny(0);
    // what the named base holds, if it is stored
    let base: Option<i32> = if DELTA_TICK == 10 {
        Some(v10)
    } else if DELTA_TICK == 5 {
        Some(v5)
    } else if DELTA_TICK < 0 {
        Some(0)
    } else {
        None
    };
    let res = st.add_delta(&mut w, Some(crc), DELTA_TICK, TICK, &delta).map(|s| (item_word(s), s.crc()));
    match res {
        Ok((word, c)) => {
            // accepted only against exactly the named base, with the announced checksum
            assert!(TICK > 10);
            assert!(base.is_some());
            let expect = if DELTA_TICK < 0 { d } else { base.unwrap().wrapping_add(d) };
            assert!(word == Some(expect));
            assert!(c == crc && c == expect);
            assert!(st.ack_tick() == Some(TICK));
            assert!(st.snaps.front().unwrap().tick == TICK);
            kani::cover!(true, "accepted");
        }
        Err(e) => {
            // the acknowledged tick does not advance to this tick
            // the acknowledged tick does not *advance* to this tick (a duplicate of the tick that is
            // already acknowledged leaves it where it was)
            assert!(st.ack_tick() != Some(TICK) || old_ack == Some(TICK));
            assert!(st.ack_tick().is_none() || st.ack_tick() == old_ack);
            match e {
                Error::OldDelta => assert!(TICK <= 10),
                Error::UnknownSnap => assert!(base.is_none() && st.ack_tick().is_none()),
                Error::InvalidCrc => assert!(base.is_some() && st.ack_tick().is_none()),
                Error::Unpack(_) => assert!(false),
            }
            kani::cover!(true, "refused");
        }
    }
    assert!(stored_ticks_decreasing(&st));
    core::mem::forget(st);
    core::mem::forget(delta);
}

#[kani::proof]
#[kani::unwind(6)]
fn c13_receiver_base_is_back() {
    receiver_step::<5, 12>();
}
#[kani::proof]
#[kani::unwind(6)]
fn c13_receiver_base_is_front() {
    receiver_step::<10, 12>();
}
#[kani::proof]
#[kani::unwind(6)]
fn c13_receiver_base_dropped_between() {
    receiver_step::<7, 12>();
}
#[kani::proof]
#[kani::unwind(6)]
fn c13_receiver_base_older_than_all() {
    receiver_step::<3, 12>();
}
#[kani::proof]
#[kani::unwind(6)]
fn c13_receiver_base_newer_than_all() {
    receiver_step::<20, 25>();
}
#[kani::proof]
#[kani::unwind(6)]
fn c13_receiver_empty_base() {
    receiver_step::<-1, 12>();
}
#[kani::proof]
#[kani::unwind(6)]
fn c13_receiver_old_tick() {
    receiver_step::<5, 10>();
}
#[kani::proof]
#[kani::unwind(6)]
fn c13_receiver_tick_max() {
    receiver_step::<10, { i32::MAX }>();
}

fn sender_step<const ACK: i32>() {
    // the client acknowledged tick ACK; the next snapshot is diffed against exactly that snapshot if
    // it is still stored and against the empty snapshot otherwise
    let v10: i32 = kani::any();
    let v5: i32 = kani::any();
    let v12: i32 = kani::any();
    let mut st = storage_10_5(v10, v5, None);
    let mut w = WAny(0);
    let r = st.set_delta_tick(&mut w, ACK);
    let known = ACK == 10 || ACK == 5;
    if ACK < 0 {
        assert!(r.is_ok() && st.delta_tick().is_none());
    } else if known {
        assert!(r.is_ok() && st.delta_tick() == Some(ACK));
        assert!(st.snaps.back().unwrap().tick == ACK);
    } else {
        assert!(r == Err(UnknownSnap) && st.delta_tick().is_none());
    }
    assert!(stored_ticks_decreasing(&st));
    let delta = st.add_snap(12, one_item_snap(v12));
    // the delta holds the wrapping difference to the acknowledged snapshot, or the raw data
    let (nu, nd, first) = delta.verif_summary();
    assert!(nu == 1 && nd == 0);
    let base = if ACK == 10 { Some(v10) } else if ACK == 5 { Some(v5) } else { None };
    match base {
        Some(b) => assert!(first == Some(v12.wrapping_sub(b))),
        None => assert!(first == Some(v12)),
    }
    core::mem::forget(st);
}

#[kani::proof]
#[kani::unwind(6)]
fn c13_sender_ack_front() {
    sender_step::<10>();
}
#[kani::proof]
#[kani::unwind(6)]
fn c13_sender_ack_back() {
    sender_step::<5>();
}
#[kani::proof]
#[kani::unwind(6)]
fn c13_sender_ack_dropped() {
    sender_step::<7>();
}
#[kani::proof]
#[kani::unwind(6)]
fn c13_sender_ack_newer_than_all() {
    sender_step::<{ i32::MAX }>();
}
#[kani::proof]
#[kani::unwind(6)]
fn c13_sender_ack_none() {
    sender_step::<-1>();
}
#[kani::proof]
#[kani::unwind(6)]
fn c13_sender_ack_weird_negative() {
    sender_step::<{ i32::MIN }>();
}

// constructors shared with the Manager harnesses (snapshot_manager.rs)
impl Storage {
    pub(crate) fn verif_storage_10_5(v10: i32, v5: i32) -> Storage {
        storage_10_5(v10, v5, None)
    }
    pub(crate) fn verif_update_delta(d: i32) -> Delta {
        update_delta(d)
    }
}
