// C09 / C10 / C11 harnesses, include!()-ed into snapshot/src/snap.rs under cfg(kani).
// The std BTreeMap/BTreeSet are replaced by the sorted array model (harness/shim/shim_btree.rs)
// in the scratch copy of this file; everything else is the real code.

pub struct WMask(pub u32);
impl Warn<Warning> for WMask {
    fn warn(&mut self, w: Warning) {
        let bit = match w {
            Warning::Packer(_) => 0,
            Warning::NonZeroPadding => 1,
            Warning::DuplicateDelete => 2,
            Warning::DuplicateUpdate => 3,
            Warning::UnknownDelete => 4,
            Warning::DeleteUpdate => 5,
            Warning::NumUpdatedItems => 6,
            Warning::ExcessSnapData => 7,
            Warning::ExcessUuidItemData => 8,
        };
        self.0 |= 1 << bit;
    }
}

fn w_eq(a: &[i32], b: &[i32]) -> bool {
    if a.len() != b.len() {
        return false;
    }
    let mut i = 0;
    while i < a.len() {
        if a[i] != b[i] {
            return false;
        }
        i += 1;
    }
    true
}

const UUID_A: Uuid = Uuid::from_bytes([0x1a, 0x3f, 0xcc, 0x94, 0x1e, 0x53, 0x46, 0x1e, 0x91, 0x2e, 0x21, 0x20, 0x08, 0x82, 0x02, 0x4b]);
const UUID_B: Uuid = Uuid::from_bytes([0x90, 0x01, 0x02, 0x03, 0x04, 0x05, 0x06, 0x07, 0x08, 0x09, 0x0a, 0x0b, 0x0c, 0x0d, 0x0e, 0x0f]);

// ---------------------------------------------------------------------------------------------
// item kernels, full domain (no container involved)

fn item_delta_inverse<const N: usize, const M: usize>() {
    // create_item_delta / apply_item_delta are inverse for all i32 words (wrapping)
    let from: [i32; N] = kani::any();
    let to: [i32; N] = kani::any();
    let mut d = [0i32; N];
    let mut out = [0i32; N];
    assert!(create_item_delta(Some(&from), &to, &mut d).is_ok());
    assert!(apply_item_delta(Some(&from), &d, &mut out).is_ok());
    assert!(w_eq(&out, &to));
    // new item: the delta is the data itself
    let mut d2 = [0i32; N];
    let mut out2 = [0i32; N];
    assert!(create_item_delta(None, &to, &mut d2).is_ok());
    assert!(w_eq(&d2, &to));
    assert!(apply_item_delta(None, &d2, &mut out2).is_ok());
    assert!(w_eq(&out2, &to));
    // size mismatch between old item and difference is an error, not a panic
    let other: [i32; M] = kani::any();
    assert!(apply_item_delta(Some(&other), &d, &mut out).is_err());
    assert!(create_item_delta(Some(&other), &to, &mut d).is_err());
}

#[kani::proof]
#[kani::unwind(5)]
fn c09_item_delta_inverse_len0() {
    item_delta_inverse::<0, 1>();
}
#[kani::proof]
#[kani::unwind(5)]
fn c09_item_delta_inverse_len1() {
    item_delta_inverse::<1, 2>();
}
#[kani::proof]
#[kani::unwind(5)]
fn c09_item_delta_inverse_len3() {
    item_delta_inverse::<3, 0>();
}

#[kani::proof]
#[kani::unwind(3)]
fn c09_key_bijection() {
    let t: u16 = kani::any();
    let i: u16 = kani::any();
    let k = key(t, i);
    assert!(key_to_raw_type_id(k) == t && key_to_id(k) == i);
    // type ids >= 0x8000 <-> negative keys
    assert!((k < 0) == (t >= 0x8000));
    let k2: i32 = kani::any();
    assert!(key(key_to_raw_type_id(k2), key_to_id(k2)) == k2);
    // unsigned key order is (type, id) lexicographic order
    let t2: u16 = kani::any();
    let i2: u16 = kani::any();
    assert!(((key(t, i) as u32) < (key(t2, i2) as u32)) == ((t, i) < (t2, i2)));
}

#[kani::proof]
#[kani::unwind(18)]
fn c09_uuid_item_data_inverse() {
    let b: [u8; 16] = kani::any();
    let u = Uuid::from_bytes(b);
    let d = uuid_to_item_data(u);
    let mut w = WMask(0);
    let back = item_data_to_uuid(&mut w, &d).unwrap();
    let bb = back.as_bytes();
    let mut i = 0;
    while i < 16 {
        assert!(bb[i] == b[i]);
        i += 1;
    }
    assert!(w.0 == 0);
    let d2: [i32; 5] = kani::any();
    let n: usize = kani::any();
    kani::assume(n <= 5);
    let mut w2 = WMask(0);
    let r = item_data_to_uuid(&mut w2, &d2[..n]);
    assert!(r.is_some() == (n >= 4));
    assert!((w2.0 != 0) == (n > 4));
    if let Some(u2) = r {
        let d3 = uuid_to_item_data(u2);
        assert!(d3[0] == d2[0] && d3[1] == d2[1] && d3[2] == d2[2] && d3[3] == d2[3]);
    }
}

// ---------------------------------------------------------------------------------------------
// C10: serialization of snapshots with UUID-typed items

fn build_uuid_snap(id: u16, d0: i32, d1: i32, with_ordinal: bool, o0: i32) -> Snap {
    let mut b = Builder::new();
    b.add_item(TypeId::Uuid(UUID_A), id, &[d0, d1]).unwrap();
    if with_ordinal {
        b.add_item(TypeId::Ordinal(5), 9, &[o0]).unwrap();
    }
    b.finish()
}

/// canonical integer form per doc/snapshot.md for the snapshot of build_uuid_snap
fn canonical_uuid_snap(id: u16, d0: i32, d1: i32, with_ordinal: bool, o0: i32, out: &mut [i32; 16]) -> usize {
    let ud = uuid_to_item_data(UUID_A);
    let n_items = if with_ordinal { 3 } else { 2 };
    let data_words = 4 + 2 + if with_ordinal { 1 } else { 0 };
    let mut p = 0;
    out[p] = ((data_words + n_items) * 4) as i32;
    p += 1;
    out[p] = n_items as i32;
    p += 1;
    // offsets (bytes), items sorted by unsigned key: (0, 0x4000), (5, 9), (0x4000, id)
    out[p] = 0;
    p += 1;
    out[p] = 5 * 4;
    p += 1;
    if with_ordinal {
        out[p] = (5 + 2) * 4;
        p += 1;
    }
    out[p] = key(TYPE_ID_EX, OFFSET_EXTENDED_TYPE_ID);
    p += 1;
    let mut i = 0;
    while i < 4 {
        out[p] = ud[i];
        p += 1;
        i += 1;
    }
    if with_ordinal {
        out[p] = key(5, 9);
        p += 1;
        out[p] = o0;
        p += 1;
    }
    out[p] = key(OFFSET_EXTENDED_TYPE_ID, id);
    p += 1;
    out[p] = d0;
    p += 1;
    out[p] = d1;
    p += 1;
    p
}

fn uuid_write_canonical(with_ordinal: bool) {
    uuid_write_canonical_id(with_ordinal, 7)
}

fn uuid_write_canonical_id(with_ordinal: bool, id: u16) {
    // keys are concrete (they decide the container shape and the sort), data words symbolic
    let d0: i32 = kani::any();
    let d1: i32 = kani::any();
    let o0: i32 = kani::any();
    let snap = build_uuid_snap(id, d0, d1, with_ordinal, o0);
    // the builder's own view
    assert!(w_eq(snap.item(TypeId::Uuid(UUID_A), id).unwrap(), &[d0, d1]));
    assert!(snap.crc() == {
        let ud = uuid_to_item_data(UUID_A);
        let mut s = d0.wrapping_add(d1).wrapping_add(ud[0]).wrapping_add(ud[1]).wrapping_add(ud[2]).wrapping_add(ud[3]);
        if with_ordinal {
            s = s.wrapping_add(o0);
        }
        s
    });
    let mut keys = Vec::with_capacity(4);
    let mut out = [0i32; 16];
    let written = snap.write_to_ints(&mut keys, &mut out).unwrap();
    let mut canon = [0i32; 16];
    let n = canonical_uuid_snap(id, d0, d1, with_ordinal, o0, &mut canon);
    assert!(w_eq(written, &canon[..n]));
    core::mem::forget(snap);
    core::mem::forget(keys);
}

#[kani::proof]
#[kani::unwind(16)]
fn c10_uuid_write_canonical() {
    uuid_write_canonical(false);
}
#[kani::proof]
#[kani::unwind(16)]
fn c10_uuid_write_canonical_with_ordinal() {
    uuid_write_canonical(true);
}

fn uuid_read_lookup(with_ordinal: bool) {
    uuid_read_lookup_id(with_ordinal, 7)
}

fn uuid_read_lookup_id(with_ordinal: bool, id: u16) {
    // reader on the canonical words (structure concrete, data symbolic): the UUID-typed item can be
    // looked up by its UUID, is enumerated with its UUID type, checksum equal, no warnings
    let d0: i32 = kani::any();
    let d1: i32 = kani::any();
    let o0: i32 = kani::any();
    let mut canon = [0i32; 16];
    let n = canonical_uuid_snap(id, d0, d1, with_ordinal, o0, &mut canon);
    let mut snap = Snap::empty();
    let mut w = WMask(0);
    let r = snap.read_from_ints(&mut w, &canon[..n]);
    assert!(r.is_ok());
    assert!(w.0 == 0);
    let it = snap.item(TypeId::Uuid(UUID_A), id);
    assert!(it.is_some());
    assert!(w_eq(it.unwrap(), &[d0, d1]));
    assert!(snap.item(TypeId::Uuid(UUID_B), id).is_none());
    if with_ordinal {
        assert!(w_eq(snap.item(TypeId::Ordinal(5), 9).unwrap(), &[o0]));
    }
    // enumeration: exactly the non-registry items, with the UUID type resolved
    let mut items = snap.items();
    assert!(items.len() == if with_ordinal { 2 } else { 1 });
    if with_ordinal {
        let first = items.next().unwrap();
        assert!(matches!(first.type_id, TypeId::Ordinal(5)) && first.id == 9 && w_eq(first.data, &[o0]));
    }
    let second = items.next().unwrap();
    assert!(matches!(second.type_id, TypeId::Uuid(u) if u.as_u128() == UUID_A.as_u128()) && second.id == id && w_eq(second.data, &[d0, d1]));
    assert!(items.next().is_none());
    let ud = uuid_to_item_data(UUID_A);
    let mut s = d0.wrapping_add(d1).wrapping_add(ud[0]).wrapping_add(ud[1]).wrapping_add(ud[2]).wrapping_add(ud[3]);
    if with_ordinal {
        s = s.wrapping_add(o0);
    }
    assert!(snap.crc() == s);
    core::mem::forget(snap);
}

#[kani::proof]
#[kani::unwind(7)]
fn c10_uuid_read_lookup() {
    uuid_read_lookup(false);
}
#[kani::proof]
#[kani::unwind(7)]
fn c10_uuid_read_lookup_with_ordinal() {
    uuid_read_lookup(true);
}

#[kani::proof]
#[kani::unwind(7)]
fn c10_uuid_read_lookup_id_ffff() {
    // ids across the whole 16-bit range: the largest id
    uuid_read_lookup_id(false, 0xffff);
}
#[kani::proof]
#[kani::unwind(16)]
fn c10_uuid_write_canonical_id_8007() {
    uuid_write_canonical_id(true, 0x8007);
}

#[kani::proof]
#[kani::unwind(7)]
fn c10_uuid_recycle_after_read() {
    // a snapshot that was read from its wire form is recycled into a builder that still knows its
    // UUID type: the same UUID reuses number 0x4000, a fresh UUID gets the next number
    let d0: i32 = kani::any();
    let d1: i32 = kani::any();
    let mut canon = [0i32; 16];
    let n = canonical_uuid_snap(7, d0, d1, false, 0, &mut canon);
    let mut snap = Snap::empty();
    let mut w = WMask(0);
    assert!(snap.read_from_ints(&mut w, &canon[..n]).is_ok());
    let mut b = snap.recycle();
    assert!(b.add_item(TypeId::Uuid(UUID_A), 1, &[d1]).is_ok());
    assert!(b.add_item(TypeId::Uuid(UUID_B), 2, &[d0]).is_ok());
    let s2 = b.finish();
    assert!(w_eq(s2.raw.item(OFFSET_EXTENDED_TYPE_ID, 1).unwrap(), &[d1]));
    assert!(w_eq(s2.raw.item(OFFSET_EXTENDED_TYPE_ID + 1, 2).unwrap(), &[d0]));
    assert!(w_eq(s2.item(TypeId::Uuid(UUID_A), 1).unwrap(), &[d1]));
    assert!(w_eq(s2.item(TypeId::Uuid(UUID_B), 2).unwrap(), &[d0]));
    core::mem::forget(s2);
}

#[kani::proof]
#[kani::unwind(7)]
fn c10_uuid_recycle_after_build() {
    let d0: i32 = kani::any();
    let snap = build_uuid_snap(3, d0, 1, false, 0);
    let mut b = snap.recycle();
    assert!(b.add_item(TypeId::Uuid(UUID_B), 2, &[d0]).is_ok());
    assert!(b.add_item(TypeId::Uuid(UUID_A), 1, &[d0]).is_ok());
    let s2 = b.finish();
    assert!(w_eq(s2.raw.item(OFFSET_EXTENDED_TYPE_ID, 1).unwrap(), &[d0]));
    assert!(w_eq(s2.raw.item(OFFSET_EXTENDED_TYPE_ID + 1, 2).unwrap(), &[d0]));
    core::mem::forget(s2);
}

// ---------------------------------------------------------------------------------------------
// C09: apply(create(A, B), A) == B

/// shape of one key in (A, B): 0 absent, 1 present. Lengths: la, lb words (<= 2), equal when the key
/// is in both (documented precondition of Delta::create).
fn build_two(k1: (u16, u16), p1: bool, l1: usize, v1: [i32; 2], k2: (u16, u16), p2: bool, l2: usize, v2: [i32; 2]) -> Snap {
    let mut b = Builder::new();
    if p1 {
        b.add_item(TypeId::Ordinal(k1.0), k1.1, &v1[..l1]).unwrap();
    }
    if p2 {
        b.add_item(TypeId::Ordinal(k2.0), k2.1, &v2[..l2]).unwrap();
    }
    b.finish()
}

fn delta_apply_create(a1: bool, b1: bool, a2: bool, b2: bool, l1: usize, l2: usize) {
    let k1 = (3u16, 1u16);
    let k2 = (0x3fffu16, 0xffffu16);
    let va1: [i32; 2] = kani::any();
    let vb1: [i32; 2] = kani::any();
    let va2: [i32; 2] = kani::any();
    let vb2: [i32; 2] = kani::any();
    let a = build_two(k1, a1, l1, va1, k2, a2, l2, va2);
    let b = build_two(k1, b1, l1, vb1, k2, b2, l2, vb2);
    let mut delta = Delta::new();
    delta.create(&a, &b);
    let mut c = Snap::empty();
    let mut w = WMask(0);
    let r = c.read_with_delta(&mut w, &a, &delta);
    assert!(r.is_ok());
    assert!(w.0 == 0);
    // same items, same data, same checksum
    assert!(c.raw.offsets.len() == b.raw.offsets.len());
    if b1 {
        assert!(w_eq(c.item(TypeId::Ordinal(k1.0), k1.1).unwrap(), &vb1[..l1]));
    } else {
        assert!(c.item(TypeId::Ordinal(k1.0), k1.1).is_none());
    }
    if b2 {
        assert!(w_eq(c.item(TypeId::Ordinal(k2.0), k2.1).unwrap(), &vb2[..l2]));
    } else {
        assert!(c.item(TypeId::Ordinal(k2.0), k2.1).is_none());
    }
    assert!(c.crc() == b.crc());
    core::mem::forget(a);
    core::mem::forget(b);
    core::mem::forget(c);
    core::mem::forget(delta);
}

#[kani::proof]
#[kani::unwind(7)]
fn c09_delta_changed_untouched() {
    // key1 changed (present in both), key2 present in both
    delta_apply_create(true, true, true, true, 2, 1);
}
#[kani::proof]
#[kani::unwind(7)]
fn c09_delta_added_removed() {
    // key1 only in B (added), key2 only in A (removed)
    delta_apply_create(false, true, true, false, 2, 2);
}
#[kani::proof]
#[kani::unwind(7)]
fn c09_delta_removed_changed() {
    delta_apply_create(true, false, true, true, 1, 2);
}
#[kani::proof]
#[kani::unwind(7)]
fn c09_delta_added_to_empty() {
    delta_apply_create(false, true, false, true, 2, 0);
}
#[kani::proof]
#[kani::unwind(7)]
fn c09_delta_all_removed() {
    delta_apply_create(true, false, true, false, 2, 1);
}

// ---------------------------------------------------------------------------------------------
// C11: totality

fn apply_update_sizes<const LO: usize, const LN: usize>() {
    // an accepted snapshot with one item and an accepted delta that updates the same key with a
    // possibly different size: an error, not a panic
    let vo: [i32; LO] = kani::any();
    let vd: [i32; 2] = kani::any();
    let mut b = Builder::new();
    b.add_item(TypeId::Ordinal(3), 1, &vo).unwrap();
    let a = b.finish();
    let mut delta = Delta::new();
    // wire form of a delta with explicit sizes: 0 deletions, 1 update, padding, (type, id, size, data..)
    let words = [0, 1, 0, 3, 1, LN as i32, vd[0], vd[1]];
    let mut u = IntUnpacker::new(&words[..6 + LN]);
    let mut w = WMask(0);
    assert!(delta.read_from_ints(&mut w, |_| None, &mut u).is_ok());
    assert!(w.0 == 0);
    let mut c = Snap::empty();
    let r = c.read_with_delta(&mut w, &a, &delta);
    if LO == LN {
        assert!(r.is_ok());
        let it = c.item(TypeId::Ordinal(3), 1).unwrap();
        assert!(it.len() == LN);
        let mut i = 0;
        while i < LN {
            assert!(it[i] == vo[i].wrapping_add(vd[i]));
            i += 1;
        }
    } else {
        assert!(r == Err(Error::DeltaDifferingSizes));
    }
    core::mem::forget(a);
    core::mem::forget(c);
    core::mem::forget(delta);
}

#[kani::proof]
#[kani::unwind(7)]
fn c11_apply_update_size_1_to_2() {
    apply_update_sizes::<1, 2>();
}
#[kani::proof]
#[kani::unwind(7)]
fn c11_apply_update_size_2_to_1() {
    apply_update_sizes::<2, 1>();
}
#[kani::proof]
#[kani::unwind(7)]
fn c11_apply_update_size_0_to_1() {
    apply_update_sizes::<0, 1>();
}
#[kani::proof]
#[kani::unwind(7)]
fn c11_apply_update_size_2_to_2() {
    apply_update_sizes::<2, 2>();
}

// --- single-field corruptions of valid snapshots (integer wire form) ---------------------------

/// valid skeleton with two items: (type 3, id 1) -> [d0], (type 5, id 2) -> [d1, d2]
fn skeleton2(d: [i32; 3]) -> [i32; 9] {
    [20, 2, 0, 8, key(3, 1), d[0], key(5, 2), d[1], d[2]]
}

fn after_accept(snap: Snap) {
    // whatever was accepted can be enumerated, summed, written and recycled without panic
    let mut n = 0;
    for it in snap.items() {
        let mut i = 0;
        let mut acc = 0i32;
        while i < it.data.len() {
            acc = acc.wrapping_add(it.data[i]);
            i += 1;
        }
        let _ = acc;
        n += 1;
    }
    assert!(n <= 2);
    assert!(snap.raw.offsets.len() <= MAX_SNAPSHOT_ITEMS);
    let _ = snap.crc();
    let mut keys = Vec::with_capacity(4);
    let mut out = [0i32; 12];
    let written = snap.write_to_ints(&mut keys, &mut out);
    assert!(written.is_ok());
    core::mem::forget(keys);
    core::mem::forget(snap);
}

/// valid skeleton with one item: (type 3, id 1) -> [d0]
fn skeleton1(d0: i32) -> [i32; 5] {
    [8, 1, 0, key(3, 1), d0]
}

/// boundary values of the property's quantifier (0, +-1, unaligned, aligned neighbours, MIN, MAX,
/// just past the end) for fields that size allocations (a fully symbolic size makes the Vec growth
/// symbolic: > 12 GB); keys and ids are fully symbolic instead
const BOUNDARY: [i32; 16] = [0, 1, -1, 2, 3, 4, 5, 7, 8, 9, 12, 16, 20, i32::MIN, i32::MAX, i32::MAX - 3];

fn snap_corrupt_one(words: &[i32; 5], orig: i32, p: usize) {
    let mut snap = Snap::empty();
    let mut w = WMask(0);
    let r = snap.read_from_ints(&mut w, words);
    match r {
        Ok(()) => {
            assert!(snap.raw.offsets.len() <= 1);
            assert!(snap.raw.buf.len() <= 1);
            kani::cover!(words[p] != orig, "a corrupted value is still accepted");
        }
        Err(_) => {
            kani::cover!(true, "corruption rejected");
        }
    }
    core::mem::forget(snap);
}

fn snap_corrupt<const P: usize>() {
    // one structure word of the valid one-item snapshot is replaced: value or error, never a panic.
    // Size-like fields take each boundary value in turn (concrete shape, symbolic data); the key
    // ranges over all of i32.
    let d0: i32 = kani::any();
    let orig = skeleton1(d0)[P];
    if P == 3 {
        let mut words = skeleton1(d0);
        words[P] = kani::any();
        snap_corrupt_one(&words, orig, P);
    } else {
        let mut idx = 0;
        while idx < 16 {
            let mut words = skeleton1(d0);
            words[P] = BOUNDARY[idx];
            snap_corrupt_one(&words, orig, P);
            idx += 1;
        }
    }
}

#[kani::proof]
#[kani::unwind(18)]
fn c11_snap_corrupt_data_size() {
    snap_corrupt::<0>();
}
#[kani::proof]
#[kani::unwind(18)]
fn c11_snap_corrupt_num_items() {
    snap_corrupt::<1>();
}
#[kani::proof]
#[kani::unwind(18)]
fn c11_snap_corrupt_offset0() {
    snap_corrupt::<2>();
}
#[kani::proof]
#[kani::unwind(18)]
fn c11_snap_corrupt_key0() {
    snap_corrupt::<3>();
}

#[kani::proof]
#[kani::unwind(12)]
fn c11_accepted_snapshot_usable() {
    // the valid two-item snapshot with arbitrary data: enumerate, checksum, write out, recycle
    let d: [i32; 3] = kani::any();
    let words = skeleton2(d);
    let mut snap = Snap::empty();
    let mut w = WMask(0);
    assert!(snap.read_from_ints(&mut w, &words).is_ok());
    assert!(w.0 == 0);
    assert!(snap.crc() == d[0].wrapping_add(d[1]).wrapping_add(d[2]));
    let mut keys = Vec::with_capacity(4);
    let mut out = [0i32; 12];
    let written = snap.write_to_ints(&mut keys, &mut out).unwrap();
    // written out again it is the same integer sequence
    assert!(w_eq(written, &words));
    let mut b = snap.recycle();
    assert!(b.add_item(TypeId::Ordinal(1), 0, &[d[0]]).is_ok());
    assert!(b.add_item(TypeId::Uuid(UUID_B), 0, &[d[1]]).is_ok());
    let s2 = b.finish();
    core::mem::forget(s2);
    core::mem::forget(keys);
}

fn snap_truncated<const LEN: usize>() {
    // truncation at every position of the valid skeleton
    let d: [i32; 3] = kani::any();
    let words = skeleton2(d);
    let mut snap = Snap::empty();
    let mut w = WMask(0);
    let r = snap.read_from_ints(&mut w, &words[..LEN]);
    assert!(r.is_ok() == (LEN == 9));
    core::mem::forget(snap);
}
#[kani::proof]
#[kani::unwind(12)]
fn c11_snap_truncated_all() {
    snap_truncated::<0>();
    snap_truncated::<1>();
    snap_truncated::<2>();
    snap_truncated::<3>();
    snap_truncated::<5>();
    snap_truncated::<8>();
    snap_truncated::<9>();
}

// --- single-field corruptions of valid deltas ---------------------------------------------------

/// valid delta, explicit sizes: 1 deletion (key), 1 update (type 3, id 1, size 2, data)
fn delta_skeleton(d: [i32; 2]) -> [i32; 9] {
    [1, 1, 0, key(5, 2), 3, 1, 2, d[0], d[1]]
}

fn delta_corrupt<const P: usize>(sized: bool) {
    let d: [i32; 2] = kani::any();
    let mut words = delta_skeleton(d);
    if P >= 3 && P <= 5 {
        words[P] = kani::any();
        delta_corrupt_one(&words, sized, words[P] != delta_skeleton(d)[P]);
    } else {
        let mut idx = 0;
        while idx < 16 {
            // a deletion count above 3 turns symbolic data words into set keys (symbolic positions in
            // the container): those counts all run into the same "input ends" error; skipped
            if !(P == 0 && (BOUNDARY[idx] > 3)) {
                words[P] = BOUNDARY[idx];
                delta_corrupt_one(&words, sized, words[P] != delta_skeleton(d)[P]);
            }
            idx += 1;
        }
    }
}

fn delta_corrupt_one(words: &[i32; 9], sized: bool, changed: bool) {
    let mut delta = Delta::new();
    let mut w = WMask(0);
    let mut u = IntUnpacker::new(words);
    let r = if sized {
        delta.read_from_ints(&mut w, |t| if t == 3 { Some(2) } else { None }, &mut u)
    } else {
        delta.read_from_ints(&mut w, |_| None, &mut u)
    };
    if r.is_ok() {
        // allocation bounded by the input
        assert!(delta.buf.len() <= words.len());
        assert!(delta.updated_items.len() <= 3 && delta.deleted_items.len() <= 4);
        kani::cover!(changed, "a corrupted value is still accepted");
    }
    kani::cover!(r.is_err());
    core::mem::forget(delta);
}

#[kani::proof]
#[kani::unwind(18)]
fn c11_delta_corrupt_num_deleted() {
    delta_corrupt::<0>(false);
}
#[kani::proof]
#[kani::unwind(18)]
fn c11_delta_corrupt_num_updated() {
    delta_corrupt::<1>(false);
}
#[kani::proof]
#[kani::unwind(18)]
fn c11_delta_corrupt_deleted_key() {
    delta_corrupt::<3>(false);
}
#[kani::proof]
#[kani::unwind(18)]
fn c11_delta_corrupt_type_id() {
    delta_corrupt::<4>(false);
}
#[kani::proof]
#[kani::unwind(18)]
fn c11_delta_corrupt_id() {
    delta_corrupt::<5>(false);
}
#[kani::proof]
#[kani::unwind(18)]
fn c11_delta_corrupt_size() {
    delta_corrupt::<6>(false);
}

#[kani::proof]
#[kani::unwind(7)]
fn c11_limit_arithmetic() {
    // the limit arithmetic of the single insertion point cannot overflow: an item of any size up to
    // 2^20 words into an empty snapshot is refused with TooLongSnap beyond 64 KiB, never a panic
    let size: usize = kani::any();
    kani::assume(size <= (1 << 20));
    let n_items: usize = kani::any();
    kani::assume(n_items <= 2000);
    let offset: usize = kani::any();
    kani::assume(offset <= (1 << 20));
    let total = RawSnap::serialized_ints_size(n_items + 1, offset + size);
    assert!(total == 4 * (2 + 2 * (n_items + 1) + offset + size));
    // a fresh builder refuses an oversized item before allocating it
    if size > MAX_SNAPSHOT_SIZE / 4 {
        let mut m: BTreeMap<i32, ops::Range<u32>> = Default::default();
        let mut buf: Vec<i32> = Vec::new();
        if let btree_map::Entry::Vacant(v) = m.entry(1) {
            let r = RawSnap::prepare_item_vacant(0, v, &mut buf, size);
            assert!(r == Err(BuilderError::TooLongSnap));
            assert!(buf.len() == 0);
        }
    }
    let mut m2: BTreeMap<i32, ops::Range<u32>> = Default::default();
    let mut buf2: Vec<i32> = Vec::new();
    if let btree_map::Entry::Vacant(v) = m2.entry(1) {
        let r = RawSnap::prepare_item_vacant(MAX_SNAPSHOT_ITEMS, v, &mut buf2, 0);
        assert!(r == Err(BuilderError::TooManyItems));
    }
    // ... and the last permitted item is accepted
    let mut m3: BTreeMap<i32, ops::Range<u32>> = Default::default();
    let mut buf3: Vec<i32> = Vec::new();
    if let btree_map::Entry::Vacant(v) = m3.entry(1) {
        let r = RawSnap::prepare_item_vacant(MAX_SNAPSHOT_ITEMS - 1, v, &mut buf3, 0);
        assert!(r.is_ok());
    }
}

// --- the limits end to end, with the two constants scaled down to the container model's capacity
// (sub-plan C11L: transform snapshot_scaled_limits, MAX_SNAPSHOT_ITEMS = 3, MAX_SNAPSHOT_SIZE = 48) ---

/// serialized snapshot with `n` payload-free items of type 1, ids 0..n
fn snap_ints_n(n: usize, out: &mut [i32; 12]) -> usize {
    out[0] = (n * 4) as i32;
    out[1] = n as i32;
    let mut i = 0;
    while i < n {
        out[2 + i] = (i * 4) as i32;
        out[2 + n + i] = key(1, i as u16);
        i += 1;
    }
    2 + 2 * n
}

fn limit_after_accept(snap: &Snap) {
    assert!(snap.raw.offsets.len() <= MAX_SNAPSHOT_ITEMS);
    let mut keys = Vec::with_capacity(4);
    let mut out = [0i32; 16];
    let written = snap.write_to_ints(&mut keys, &mut out).map(|w| w.len());
    assert!(written.is_ok());
    assert!(written.unwrap() * 4 <= MAX_SNAPSHOT_SIZE);
    core::mem::forget(keys);
}

#[kani::proof]
#[kani::unwind(8)]
fn c11_scaled_limit_items_read() {
    // exactly the permitted number of items is accepted and can be written out; one more is refused
    assert!(MAX_SNAPSHOT_ITEMS == 3);
    let mut words = [0i32; 12];
    let n = snap_ints_n(3, &mut words);
    let mut snap = Snap::empty();
    let mut w = WMask(0);
    assert!(snap.read_from_ints(&mut w, &words[..n]).is_ok());
    limit_after_accept(&snap);
    let mut words4 = [0i32; 12];
    let n4 = snap_ints_n(4, &mut words4);
    let mut snap4 = Snap::empty();
    let r = snap4.read_from_ints(&mut w, &words4[..n4]);
    assert!(r == Err(Error::TooManyItems));
    core::mem::forget(snap);
    core::mem::forget(snap4);
}

#[kani::proof]
#[kani::unwind(8)]
fn c11_scaled_limit_items_delta() {
    // a full snapshot plus a delta that adds one more item: refused, not accepted beyond the limit
    assert!(MAX_SNAPSHOT_ITEMS == 3);
    let mut words = [0i32; 12];
    let n = snap_ints_n(3, &mut words);
    let mut from = Snap::empty();
    let mut w = WMask(0);
    assert!(from.read_from_ints(&mut w, &words[..n]).is_ok());
    let id: u16 = kani::any();
    let delta_ints = [0, 1, 0, 1, id as i32, 0];
    let mut delta = Delta::new();
    let mut u = IntUnpacker::new(&delta_ints);
    assert!(delta.read_from_ints(&mut w, |_| None, &mut u).is_ok());
    let mut to = Snap::empty();
    let r = to.read_with_delta(&mut w, &from, &delta);
    match r {
        Ok(()) => {
            // the update hit an existing key
            assert!(id < 3);
            limit_after_accept(&to);
        }
        Err(ref e) => assert!(*e == Error::TooManyItems && id >= 3),
    }
    kani::cover!(r.is_ok());
    kani::cover!(r.is_err());
    core::mem::forget(from);
    core::mem::forget(to);
    core::mem::forget(delta);
}

#[kani::proof]
#[kani::unwind(12)]
fn c11_scaled_limit_size() {
    // item sizes around the byte limit: what the builder accepts can be written within the limit,
    // what it refuses is refused with TooLongSnap; both sides of the boundary occur
    assert!(MAX_SNAPSHOT_SIZE == 48);
    let data = [7i32; 10];
    let mut k = 0;
    let mut accepted = 0;
    let mut refused = 0;
    while k <= 10 {
        let mut b = Builder::new();
        match b.add_item(TypeId::Ordinal(2), 1, &data[..k]) {
            Ok(()) => {
                let snap = b.finish();
                limit_after_accept(&snap);
                core::mem::forget(snap);
                accepted += 1;
                assert!(refused == 0);
            }
            Err(e) => {
                assert!(e == BuilderError::TooLongSnap);
                refused += 1;
                core::mem::forget(b);
            }
        }
        k += 1;
    }
    assert!(accepted >= 1 && refused >= 1);
}

impl Delta {
    /// (number of updates, number of deletions, first data word) for the C13 harnesses
    pub(crate) fn verif_summary(&self) -> (usize, usize, Option<i32>) {
        (self.updated_items.len(), self.deleted_items.len(), self.buf.first().copied())
    }
}
