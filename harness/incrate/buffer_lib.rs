// C19 harnesses, include!()-ed into buffer/src/lib.rs under cfg(kani).
// Real code driven: BufferRef::{new,write,extend,advance,uninitialized_mut,initialized,remaining,cap_at},
// with_buffer, Buffer impls for &mut Vec<u8>, &mut ArrayVec, &mut [u8], &mut &mut [u8],
// &mut BufferRef (nested), CapAt, and their Drop impls; read_buffer_ref / ReadBuffer for &[u8].

use ::arrayvec::ArrayVec;

const MCAP: usize = 12;

struct Model {
    bytes: [u8; MCAP],
    n: usize,
}

impl Model {
    fn new() -> Model {
        Model { bytes: [0; MCAP], n: 0 }
    }
    fn push_prefix(&mut self, data: &[u8], count: usize) {
        let mut i = 0;
        while i < count {
            self.bytes[self.n] = data[i];
            self.n += 1;
            i += 1;
        }
    }
}

fn min(a: usize, b: usize) -> usize {
    if a < b {
        a
    } else {
        b
    }
}

/// one symbolic operation on a view of total capacity `cap`; updates the model
fn op(b: &mut BufferRef, m: &mut Model, cap: usize) {
    let kind: u8 = kani::any();
    kani::assume(kind < 4);
    let data: [u8; 3] = kani::any();
    let len: usize = kani::any();
    kani::assume(len <= 3);
    let rem = b.remaining();
    assert!(rem == cap - m.n);
    match kind {
        0 => {
            let r = b.write(&data[..len]);
            assert!(r.is_err() == (len > rem));
            m.push_prefix(&data, min(len, rem));
        }
        1 => {
            let r = b.extend((0..len).map(|i| data[i]));
            assert!(r.is_err() == (len > rem));
            m.push_prefix(&data, min(len, rem));
        }
        2 => {
            // nested view of this view; the parent's counter moves when the child is released
            let before = b.remaining();
            let child_len = with_buffer(&mut *b, |mut c| {
                assert!(c.remaining() == before);
                let r = c.write(&data[..len]);
                assert!(r.is_err() == (len > before));
                c.initialized().len()
            });
            assert!(child_len == min(len, rem));
            m.push_prefix(&data, min(len, rem));
        }
        _ => {
            // raw write into the uninitialized part followed by advance
            if len <= rem {
                unsafe {
                    let u = b.uninitialized_mut();
                    assert!(u.len() == rem);
                    let mut i = 0;
                    while i < len {
                        u[i] = data[i];
                        i += 1;
                    }
                    b.advance(len);
                }
                m.push_prefix(&data, len);
            }
        }
    }
    assert!(b.remaining() == cap - m.n);
    assert!(m.n <= cap);
}

fn check_init(init: &[u8], m: &Model) {
    assert!(init.len() == m.n);
    let mut i = 0;
    while i < m.n {
        assert!(init[i] == m.bytes[i]);
        i += 1;
    }
}

/// drive `nops` symbolic operations with an early-exit choice, return the initialized slice
fn drive<'d, 's>(mut b: BufferRef<'d, 's>, m: &mut Model, cap: usize, nops: usize) -> &'d [u8] {
    assert!(b.remaining() == cap);
    let mut k = 0;
    while k < nops {
        let stop: bool = kani::any();
        if stop {
            break;
        }
        op(&mut b, m, cap);
        k += 1;
    }
    b.initialized()
}

fn slice_store<const CAP: usize, const NOPS: usize>() {
    let mut store = [0xaau8; CAP];
    let mut m = Model::new();
    let init = with_buffer(&mut store[..], |b| drive(b, &mut m, CAP, NOPS));
    check_init(init, &m);
    kani::cover!(m.n == CAP);
}

fn slice_ref_store<const CAP: usize, const NOPS: usize>() {
    let mut store = [0xaau8; CAP];
    let mut m = Model::new();
    let mut sl: &mut [u8] = &mut store[..];
    {
        let r: &mut &mut [u8] = unsafe { &mut *(&mut sl as *mut &mut [u8]) };
        let init = with_buffer(r, |b| drive(b, &mut m, CAP, NOPS));
        check_init(init, &m);
    }
    // the slice reference was narrowed to exactly the initialized bytes
    check_init(sl, &m);
    kani::cover!(m.n == CAP);
}

fn vec_store<const CAP: usize, const NOPS: usize>() {
    let mut v: Vec<u8> = Vec::with_capacity(CAP);
    let cap = v.capacity();
    kani::assume(cap == CAP);
    let pre: usize = kani::any();
    kani::assume(pre <= CAP);
    let mut i = 0;
    while i < pre {
        v.push(0x55);
        i += 1;
    }
    let mut m = Model::new();
    {
        let init = with_buffer(&mut v, |b| drive(b, &mut m, CAP - pre, NOPS));
        check_init(init, &m);
    }
    assert!(v.len() == pre + m.n);
    assert!(v.capacity() == CAP);
    let mut i = 0;
    while i < v.len() {
        if i < pre {
            assert!(v[i] == 0x55);
        } else {
            assert!(v[i] == m.bytes[i - pre]);
        }
        i += 1;
    }
    kani::cover!(pre + m.n == CAP);
}

fn arrayvec_store<const NOPS: usize>() {
    let mut v: ArrayVec<[u8; 4]> = ArrayVec::new();
    let pre: usize = kani::any();
    kani::assume(pre <= 4);
    let mut i = 0;
    while i < pre {
        v.push(0x55);
        i += 1;
    }
    let mut m = Model::new();
    {
        let init = with_buffer(&mut v, |b| drive(b, &mut m, 4 - pre, NOPS));
        check_init(init, &m);
    }
    assert!(v.len() == pre + m.n);
    let mut i = 0;
    while i < v.len() {
        if i < pre {
            assert!(v[i] == 0x55);
        } else {
            assert!(v[i] == m.bytes[i - pre]);
        }
        i += 1;
    }
    kani::cover!(pre > 0 && m.n > 0 && pre + m.n == 4);
}

fn cap_at_store<const CAP: usize, const NOPS: usize>() {
    // capped view: no more than `n` bytes are written; `n` may exceed the capacity
    let mut store = [0xaau8; CAP];
    let n: usize = kani::any();
    kani::assume(n <= CAP + 2);
    let eff = min(n, CAP);
    let mut m = Model::new();
    let init = with_buffer((&mut store[..]).cap_at(n), |b| drive(b, &mut m, eff, NOPS));
    check_init(init, &m);
    assert!(m.n <= n);
    kani::cover!(n > CAP);
    kani::cover!(n < CAP && m.n == n);
}

fn cap_at_vec_store<const NOPS: usize>() {
    let mut v: Vec<u8> = Vec::with_capacity(4);
    kani::assume(v.capacity() == 4);
    v.push(0x55);
    let n: usize = kani::any();
    kani::assume(n <= 3);
    let mut m = Model::new();
    {
        let init = with_buffer((&mut v).cap_at(n), |b| drive(b, &mut m, n, NOPS));
        check_init(init, &m);
    }
    assert!(v.len() == 1 + m.n);
    assert!(m.n <= n);
    kani::cover!(m.n == 3);
}

#[kani::proof]
#[kani::unwind(6)]
fn c19_slice_cap0() {
    slice_store::<0, 2>();
}
#[kani::proof]
#[kani::unwind(6)]
fn c19_slice_cap1() {
    slice_store::<1, 2>();
}
#[kani::proof]
#[kani::unwind(6)]
fn c19_slice_cap4() {
    slice_store::<4, 2>();
}
#[kani::proof]
#[kani::unwind(6)]
fn c19_slice_cap4_ops3() {
    slice_store::<4, 3>();
}
#[kani::proof]
#[kani::unwind(6)]
fn c19_slice_ref_cap1() {
    slice_ref_store::<1, 2>();
}
#[kani::proof]
#[kani::unwind(6)]
fn c19_slice_ref_cap4() {
    slice_ref_store::<4, 2>();
}
#[kani::proof]
#[kani::unwind(6)]
fn c19_vec_cap1() {
    vec_store::<1, 2>();
}
#[kani::proof]
#[kani::unwind(6)]
fn c19_vec_cap4() {
    vec_store::<4, 2>();
}
#[kani::proof]
#[kani::unwind(6)]
fn c19_vec_cap4_ops3() {
    vec_store::<4, 3>();
}
#[kani::proof]
#[kani::unwind(6)]
fn c19_arrayvec_cap4() {
    arrayvec_store::<2>();
}
#[kani::proof]
#[kani::unwind(6)]
fn c19_arrayvec_cap4_ops3() {
    arrayvec_store::<3>();
}
#[kani::proof]
#[kani::unwind(6)]
fn c19_cap_at_slice4() {
    cap_at_store::<4, 2>();
}
#[kani::proof]
#[kani::unwind(6)]
fn c19_cap_at_slice1() {
    cap_at_store::<1, 2>();
}
#[kani::proof]
#[kani::unwind(6)]
fn c19_cap_at_vec4() {
    cap_at_vec_store::<2>();
}

#[kani::proof]
#[kani::unwind(6)]
fn c19_vec_cap0() {
    vec_store::<0, 2>();
}

#[kani::proof]
#[kani::unwind(7)]
fn c19_read_buffer_slice() {
    // a reader filling the buffer: &[u8] as Read, into a slice of capacity 4
    let src: [u8; 5] = kani::any();
    let slen: usize = kani::any();
    kani::assume(slen <= 5);
    let mut reader: &[u8] = &src[..slen];
    let mut store = [0xaau8; 4];
    let got = reader.read_buffer(&mut store[..]).unwrap();
    let n = min(slen, 4);
    assert!(got.len() == n);
    let mut i = 0;
    while i < n {
        assert!(got[i] == src[i]);
        i += 1;
    }
    assert!(reader.len() == slen - n);
    kani::cover!(slen == 5);
    kani::cover!(slen == 0);
}

#[kani::proof]
#[kani::unwind(6)]
fn c19_advance_guard() {
    // advance beyond the capacity is refused by its assertion (never silently accepted):
    // within capacity it counts exactly.
    let mut store = [0u8; 4];
    let k: usize = kani::any();
    kani::assume(k <= 4);
    let l = with_buffer(&mut store[..], |mut b| {
        unsafe { b.advance(k) };
        assert!(b.remaining() == 4 - k);
        b.initialized().len()
    });
    assert!(l == k);
}
