// C08 harnesses, include!()-ed into packer/src/lib.rs under cfg(kani).
// Real code driven: write_int, read_int, Packer::*, Unpacker::*, IntUnpacker::*, with_packer.

#[derive(Default)]
struct WCount {
    overlong: u32,
    padding: u32,
    excess: u32,
}
impl Warn<Warning> for WCount {
    fn warn(&mut self, w: Warning) {
        match w {
            Warning::OverlongIntEncoding => self.overlong += 1,
            Warning::NonZeroIntPadding => self.padding += 1,
            Warning::ExcessData => self.excess += 1,
        }
    }
}
impl Warn<ExcessData> for WCount {
    fn warn(&mut self, _: ExcessData) {
        self.excess += 1;
    }
}
impl WCount {
    fn none(&self) -> bool {
        self.overlong == 0 && self.padding == 0 && self.excess == 0
    }
}

/// doc/int.md reference decoder: ESDD_DDDD EDDD_DDDD EDDD_DDDD EDDD_DDDD PPPP_DDDD,
/// 6+7+7+7+4 data bits little-endian, sign bit flips all bits.
/// Returns (value, consumed, padding_nonzero) or None if the string ends inside an encoding.
fn doc_decode(b: &[u8]) -> Option<(i32, usize, bool)> {
    if b.len() == 0 {
        return None;
    }
    let sign = (b[0] >> 6) & 1;
    let mut v: u32 = (b[0] & 0x3f) as u32;
    let mut n = 1usize;
    let mut pad = false;
    if b[0] & 0x80 != 0 {
        if b.len() < 2 {
            return None;
        }
        v |= ((b[1] & 0x7f) as u32) << 6;
        n = 2;
        if b[1] & 0x80 != 0 {
            if b.len() < 3 {
                return None;
            }
            v |= ((b[2] & 0x7f) as u32) << 13;
            n = 3;
            if b[2] & 0x80 != 0 {
                if b.len() < 4 {
                    return None;
                }
                v |= ((b[3] & 0x7f) as u32) << 20;
                n = 4;
                if b[3] & 0x80 != 0 {
                    if b.len() < 5 {
                        return None;
                    }
                    v |= ((b[4] & 0x0f) as u32) << 27;
                    pad = b[4] & 0xf0 != 0;
                    n = 5;
                }
            }
        }
    }
    let v = if sign != 0 { !v } else { v };
    Some((v as i32, n, pad))
}

fn pack_int(int: i32, out: &mut [u8; 5]) -> usize {
    let mut buf: ArrayVec<[u8; 5]> = ArrayVec::new();
    let w = with_packer(&mut buf, |mut p| {
        p.write_int(int).unwrap();
        p.written()
    });
    let n = w.len();
    let mut i = 0;
    while i < n {
        out[i] = w[i];
        i += 1;
    }
    n
}

#[kani::proof]
#[kani::unwind(7)]
fn c08_int_roundtrip() {
    let int: i32 = kani::any();
    let mut enc = [0u8; 5];
    let n = pack_int(int, &mut enc);
    assert!(1 <= n && n <= 5);
    let mut w = WCount::default();
    let mut u = Unpacker::new(&enc[..n]);
    let r = u.read_int(&mut w);
    assert!(r == Ok(int));
    assert!(w.none());
    assert!(u.as_slice().is_empty());
    assert!(u.num_bytes_read() == n);
    let mut w2 = WCount::default();
    u.finish(&mut w2);
    assert!(w2.none());
    // the reference decoder of doc/int.md agrees
    assert!(doc_decode(&enc[..n]) == Some((int, n, false)));
    kani::cover!(n == 1);
    kani::cover!(n == 5);
    kani::cover!(int == i32::MIN);
}

#[kani::proof]
#[kani::unwind(7)]
fn c08_int_shortest() {
    // no strictly shorter byte string decodes (with or without warnings) to the same value
    let int: i32 = kani::any();
    let mut enc = [0u8; 5];
    let n = pack_int(int, &mut enc);
    let other: [u8; 4] = kani::any();
    let m: usize = kani::any();
    kani::assume(m < n && m <= 4);
    let mut w = WCount::default();
    let mut u = Unpacker::new(&other[..m]);
    let r = u.read_int(&mut w);
    if let Ok(v) = r {
        if u.as_slice().is_empty() {
            assert!(v != int);
        }
    }
    kani::cover!(n == 5 && m == 4 && r.is_ok());
}

#[kani::proof]
#[kani::unwind(7)]
fn c08_int_decode_all() {
    let bytes: [u8; 5] = kani::any();
    let len: usize = kani::any();
    kani::assume(len <= 5);
    let input = &bytes[..len];
    let mut w = WCount::default();
    let mut u = Unpacker::new(input);
    let r = u.read_int(&mut w);
    let d = doc_decode(input);
    match r {
        Err(UnexpectedEnd) => {
            // fails only because the string ends inside an encoding
            assert!(d.is_none());
            let mut all_ext = true;
            let mut i = 0;
            while i < len {
                if input[i] & 0x80 == 0 {
                    all_ext = false;
                }
                i += 1;
            }
            assert!(len < 5 && all_ext);
        }
        Ok(v) => {
            let (dv, dn, dpad) = d.unwrap();
            assert!(u.num_bytes_read() == dn);
            // value prescribed by the documentation, for zero padding bits
            if !dpad {
                assert!(v == dv);
            }
            assert!((w.padding != 0) == dpad);
            // warning-free exactly when the consumed bytes are the canonical encoding
            let mut enc = [0u8; 5];
            let n = pack_int(v, &mut enc);
            let mut same = n == dn;
            let mut i = 0;
            while i < 5 {
                if i < n && i < dn && enc[i] != input[i] {
                    same = false;
                }
                i += 1;
            }
            assert!(w.none() == same);
            assert!(w.excess == 0);
            kani::cover!(w.overlong != 0);
            kani::cover!(w.padding != 0);
            kani::cover!(same && dn == 5);
        }
    }
    kani::cover!(r.is_err() && len == 4);
}

fn nul_free(s: &[u8]) -> bool {
    let mut i = 0;
    while i < s.len() {
        if s[i] == 0 {
            return false;
        }
        i += 1;
    }
    true
}

fn eq_bytes(a: &[u8], b: &[u8]) -> bool {
    if a.len() != b.len() {
        return false;
    }
    let mut i = 0;
    while i < a.len() {
        if a[i] != b[i] {
            return false;
        }
        i += 1;
    }
    true
}

/// One field: kind 0 int, 1 string, 2 data, 3 raw. Payload <= 3 bytes.
#[derive(Clone, Copy)]
struct Field {
    kind: u8,
    int: i32,
    bytes: [u8; 3],
    len: usize,
}

fn any_field() -> Field {
    let f = Field {
        kind: kani::any(),
        int: kani::any(),
        bytes: kani::any(),
        len: kani::any(),
    };
    kani::assume(f.kind < 4);
    kani::assume(f.len <= 3);
    if f.kind == 1 {
        // documented precondition of write_string (assert!): NUL-free
        kani::assume(nul_free(&f.bytes[..f.len]));
    }
    f
}

fn write_field(p: &mut Packer, f: &Field) -> Result<(), CapacityError> {
    match f.kind {
        0 => p.write_int(f.int),
        1 => p.write_string(&f.bytes[..f.len]),
        2 => p.write_data(&f.bytes[..f.len]),
        _ => p.write_raw(&f.bytes[..f.len]),
    }
}

fn read_field_check(u: &mut Unpacker, w: &mut WCount, f: &Field) -> bool {
    match f.kind {
        0 => u.read_int(w) == Ok(f.int),
        1 => match u.read_string() {
            Ok(s) => eq_bytes(s, &f.bytes[..f.len]),
            Err(_) => false,
        },
        2 => match u.read_data(w) {
            Ok(s) => eq_bytes(s, &f.bytes[..f.len]),
            Err(_) => false,
        },
        _ => match u.read_raw(f.len) {
            Ok(s) => eq_bytes(s, &f.bytes[..f.len]),
            Err(_) => false,
        },
    }
}

fn field_seq<const CAP: usize>() {
    let f0 = any_field();
    let f1 = any_field();
    let nfields: usize = kani::any();
    kani::assume(nfields <= 2);
    let mut store = [0u8; CAP];
    let mut ok = [false; 2];
    let written: &[u8] = with_packer(&mut store[..], |mut p| {
        if nfields >= 1 {
            ok[0] = write_field(&mut p, &f0).is_ok();
        }
        if nfields >= 2 && ok[0] {
            ok[1] = write_field(&mut p, &f1).is_ok();
        }
        p.written()
    });
    assert!(written.len() <= CAP);
    let all_ok = (nfields < 1 || ok[0]) && (nfields < 2 || ok[1]);
    let mut w = WCount::default();
    let mut u = Unpacker::new(written);
    if all_ok {
        if nfields >= 1 {
            assert!(read_field_check(&mut u, &mut w, &f0));
        }
        if nfields >= 2 {
            assert!(read_field_check(&mut u, &mut w, &f1));
        }
        // reading never runs past what was written, nothing left over
        assert!(u.num_bytes_read() == written.len());
        assert!(u.is_empty());
        u.finish(&mut w);
        assert!(w.none());
        kani::cover!(nfields == 2 && written.len() == CAP);
    } else {
        // a failed write left a prefix: the fields before it still read back
        if nfields >= 2 && ok[0] {
            assert!(read_field_check(&mut u, &mut w, &f0));
        }
        kani::cover!(nfields == 2 && ok[0] && !ok[1]);
    }
}

#[kani::proof]
#[kani::unwind(7)]
fn c08_field_seq_cap8() {
    field_seq::<8>();
}

#[kani::proof]
#[kani::unwind(7)]
fn c08_field_seq_cap3() {
    field_seq::<3>();
}

#[kani::proof]
#[kani::unwind(7)]
fn c08_read_data_poison() {
    // read_data with a negative or oversized length poisons the unpacker
    let bytes: [u8; 6] = kani::any();
    let len: usize = kani::any();
    kani::assume(len <= 6);
    let mut w = WCount::default();
    let mut u = Unpacker::new(&bytes[..len]);
    match u.read_data(&mut w) {
        Ok(d) => {
            assert!(d.len() <= len);
            assert!(u.num_bytes_read() <= len);
            kani::cover!(d.len() == 3);
        }
        Err(UnexpectedEnd) => {
            assert!(u.as_slice().is_empty());
            assert!(u.is_empty());
            assert!(u.read_int(&mut w).is_err());
            assert!(u.read_string().is_err());
            kani::cover!(len == 6);
        }
    }
}

#[kani::proof]
#[kani::unwind(9)]
fn c08_demo_finish_padding() {
    // demo mode: at most 3 trailing zero bytes are not excess data
    let bytes: [u8; 8] = kani::any();
    let four: bool = kani::any();
    let len = if four { 4 } else { 8 };
    let mut u = Unpacker::new_from_demo(&bytes[..len]);
    let mut w = WCount::default();
    let r = u.read_int(&mut w);
    kani::assume(r.is_ok());
    let rest_len = u.as_slice().len();
    let mut rest_zero = true;
    let mut i = 0;
    while i < rest_len {
        if u.as_slice()[i] != 0 {
            rest_zero = false;
        }
        i += 1;
    }
    let mut w2 = WCount::default();
    u.finish(&mut w2);
    assert!((w2.excess == 0) == (rest_len < 4 && rest_zero));
    assert!(u.is_empty());
    kani::cover!(w2.excess == 0 && rest_len == 3);
    kani::cover!(w2.excess != 0 && rest_len == 3);
}

#[kani::proof]
#[kani::unwind(5)]
fn c08_int_unpacker() {
    let ints: [i32; 3] = kani::any();
    let len: usize = kani::any();
    kani::assume(len <= 3);
    let mut u = IntUnpacker::new(&ints[..len]);
    let mut i = 0;
    while i < len {
        assert!(u.read_int() == Ok(ints[i]));
        i += 1;
    }
    assert!(u.is_empty());
    assert!(u.read_int().is_err());
    let mut w = WCount::default();
    u.finish(&mut w);
    assert!(w.none());
    let mut u2 = IntUnpacker::new(&ints[..len]);
    let mut w3 = WCount::default();
    u2.finish(&mut w3);
    assert!((w3.excess != 0) == (len != 0));
    assert!(u2.as_slice().is_empty());
}
