// C07 harnesses + the codec oracle stubs used by the layers above, include!()-ed into
// huffman/src/lib.rs under cfg(kani).
// Real code driven: Huffman::{compress, compress_bug, compressed_len, compressed_len_bug, decompress,
// compress_impl_unsafe, decompress_unsafe, get_node, symbol_bit_length}, Node::to_symbol_repr,
// the static table instances::TEEWORLDS.

include!(concat!(env!("LIBTW2_VERIF_HARNESS"), "/gen_huffman_repr.rs"));

const HUF: Huffman = instances::TEEWORLDS;

// ---------------------------------------------------------------------------------------------
// Codec oracle (DESIGN.md section 3): over-approximates every lossless codec.

pub const ORACLE_K: usize = 8;

pub struct Oracle {
    pub valid: bool,
    pub plain_len: usize,
    pub plain: [u8; 16],
    pub cipher_len: usize,
    pub cipher: [u8; ORACLE_K],
    pub compress_calls: u32,
    pub decompress_calls: u32,
    /// set by a harness to force the outcome of the next decompression (None = arbitrary)
    pub forced_out_len: Option<usize>,
}

pub static mut ORACLE: Oracle = Oracle {
    valid: false,
    plain_len: 0,
    plain: [0; 16],
    cipher_len: 0,
    cipher: [0; ORACLE_K],
    compress_calls: 0,
    decompress_calls: 0,
    forced_out_len: None,
};

impl Huffman {
    /// stand-in for `compress_impl_unsafe`: arbitrary length <= ORACLE_K and arbitrary bytes, or
    /// "does not fit"; remembers (plaintext, ciphertext) when the plaintext is <= 16 bytes.
    pub fn verif_compress_oracle(&self, input: &[u8], buffer: &mut [u8], bug: bool) -> Result<usize, ()> {
        self.verif_compress_oracle_impl(input, buffer, bug, false)
    }
    /// the same oracle for callers that hand in a buffer no code word sequence of the (tiny) input
    /// can overflow (demo writer: 64 KiB): the "does not fit" outcome is excluded (the real table's
    /// code words are at most 15 bits, C07 table lemma, so <= 2 bytes per input byte + 2)
    pub fn verif_compress_oracle_fits(&self, input: &[u8], buffer: &mut [u8], bug: bool) -> Result<usize, ()> {
        assert!(buffer.len() >= 2 * input.len() + 2);
        self.verif_compress_oracle_impl(input, buffer, bug, true)
    }
    fn verif_compress_oracle_impl(&self, input: &[u8], buffer: &mut [u8], _bug: bool, must_fit: bool) -> Result<usize, ()> {
        unsafe {
            ORACLE.compress_calls += 1;
            let fits: bool = kani::any();
            if !fits && !must_fit {
                return Err(());
            }
            let c: usize = kani::any();
            kani::assume(c <= ORACLE_K && c <= buffer.len());
            // a codec emits at least the EOF symbol
            kani::assume(c >= 1);
            let bytes: [u8; ORACLE_K] = kani::any();
            let mut i = 0;
            while i < c {
                buffer[i] = bytes[i];
                i += 1;
            }
            if input.len() <= 16 {
                ORACLE.valid = true;
                ORACLE.plain_len = input.len();
                let mut i = 0;
                while i < input.len() {
                    ORACLE.plain[i] = input[i];
                    i += 1;
                }
                ORACLE.cipher_len = c;
                ORACLE.cipher = bytes;
            } else {
                ORACLE.valid = false;
            }
            Ok(c)
        }
    }

    /// stand-in for `compress_impl_unsafe` that never fits: the writer then keeps the payload
    /// uncompressed (compression is an optimisation the writer may always decline)
    pub fn verif_compress_never(&self, _input: &[u8], _buffer: &mut [u8], _bug: bool) -> Result<usize, ()> {
        Err(())
    }

    /// stand-in for `decompress_unsafe`: the remembered plaintext for the remembered ciphertext,
    /// otherwise an arbitrary byte string of arbitrary length <= 16 (or the forced length), or Err.
    pub fn verif_decompress_oracle(&self, input: &[u8], buffer: &mut [u8]) -> Result<usize, ()> {
        unsafe {
            ORACLE.decompress_calls += 1;
            if ORACLE.valid && input.len() == ORACLE.cipher_len {
                let mut same = true;
                let mut i = 0;
                while i < ORACLE.cipher_len {
                    if input[i] != ORACLE.cipher[i] {
                        same = false;
                    }
                    i += 1;
                }
                if same {
                    if ORACLE.plain_len > buffer.len() {
                        return Err(());
                    }
                    let mut i = 0;
                    while i < ORACLE.plain_len {
                        buffer[i] = ORACLE.plain[i];
                        i += 1;
                    }
                    return Ok(ORACLE.plain_len);
                }
            }
            let ok: bool = kani::any();
            if !ok {
                return Err(());
            }
            let m: usize = match ORACLE.forced_out_len {
                Some(m) => m,
                None => {
                    let m: usize = kani::any();
                    kani::assume(m <= 16);
                    m
                }
            };
            if m > buffer.len() {
                return Err(());
            }
            if m <= 16 {
                let bytes: [u8; 16] = kani::any();
                let mut i = 0;
                while i < m {
                    buffer[i] = bytes[i];
                    i += 1;
                }
            }
            // for forced lengths > 16 the contents stay whatever the buffer held (unconstrained by
            // the property: only the length matters to the callers that use this mode)
            Ok(m)
        }
    }
}

// ---------------------------------------------------------------------------------------------
// table-level lemmas

#[kani::proof]
#[kani::unwind(26)]
fn c07_table_prefix_code() {
    // every symbol's (bits, num_bits) is a root-to-leaf path that visits only inner nodes
    let s: u16 = kani::any();
    kani::assume(s <= EOF);
    let repr = HUF.get_node(s).unwrap_err();
    let nb = repr.num_bits();
    assert!(1 <= nb && nb <= 24);
    assert!(repr.bits >> nb == 0);
    let mut node = HUF.get_node(ROOT_IDX).unwrap();
    let mut i = 0;
    let mut reached: u16 = 0xffff;
    while i < nb {
        let idx = node.children[repr.bit(i) as usize];
        assert!((idx as usize) < NUM_NODES);
        if i + 1 < nb {
            // still inside the tree
            assert!(idx >= NUM_SYMBOLS);
            node = HUF.get_node(idx).unwrap();
        } else {
            reached = idx;
        }
        i += 1;
    }
    assert!(reached == s);
    kani::cover!(s == EOF);
    kani::cover!(nb >= 15);
}

#[kani::proof]
#[kani::unwind(3)]
fn c07_table_inner_nodes_valid() {
    // every inner node has two valid children, so the decoder's walk never indexes out of range
    let idx: u16 = kani::any();
    kani::assume(idx >= NUM_SYMBOLS && (idx as usize) < NUM_NODES);
    let n = HUF.get_node(idx).unwrap();
    assert!((n.children[0] as usize) < NUM_NODES);
    assert!((n.children[1] as usize) < NUM_NODES);
    // children come before their parent: the tree is acyclic
    assert!(n.children[0] < idx && n.children[1] < idx);
}

#[kani::proof]
#[kani::unwind(3)]
fn c07_table_matches_doc() {
    // the built-in table equals the documented code (huffman/data/repr), symbol by symbol
    let s: u16 = kani::any();
    kani::assume(s <= EOF);
    let repr = HUF.get_node(s).unwrap_err();
    assert!(repr.num_bits() == DOC_LEN[s as usize] as u32);
    assert!(repr.bits == DOC_BITS[s as usize]);
    assert!(HUF.symbol_bit_length(s) == DOC_LEN[s as usize] as u32);
}

/// reference encoder written from doc/huffman.md: concatenate code(s) for each input symbol and
/// EOF, LSB-first into bytes. Returns (bytes, bit_len).
fn doc_encode(input: &[u8], out: &mut [u8; 8]) -> usize {
    let mut acc: u64 = 0;
    let mut nbits: u32 = 0;
    let mut i = 0;
    while i <= input.len() {
        let s: usize = if i < input.len() { input[i] as usize } else { 256 };
        acc |= (DOC_BITS[s] as u64) << nbits;
        nbits += DOC_LEN[s] as u32;
        i += 1;
    }
    let mut k = 0;
    while k < 8 {
        out[k] = (acc >> (8 * k)) as u8;
        k += 1;
    }
    nbits as usize
}

fn compress_matches_doc<const N: usize>() {
    let data: [u8; N] = kani::any();
    let len: usize = kani::any();
    kani::assume(len <= N);
    let input = &data[..len];
    let mut cbuf = [0u8; 8];
    let mut cbuf_bug = [0u8; 8];
    let c = HUF.compress(input, &mut cbuf[..]).unwrap();
    let cb = HUF.compress_bug(input, &mut cbuf_bug[..]).unwrap();
    // predicted lengths are exact
    assert!(c.len() == HUF.compressed_len(input));
    assert!(cb.len() == HUF.compressed_len_bug(input));
    // documented code: concatenation of the code words, LSB first, zero padded
    let mut doc = [0u8; 8];
    let nbits = doc_encode(input, &mut doc);
    assert!(c.len() == (nbits + 7) / 8);
    let mut i = 0;
    while i < c.len() {
        assert!(c[i] == doc[i]);
        i += 1;
    }
    // reference-compatible form = compact form plus at most one zero byte
    assert!(cb.len() == nbits / 8 + 1);
    assert!(cb.len() == c.len() || (cb.len() == c.len() + 1 && cb[c.len()] == 0));
    let mut i = 0;
    while i < c.len() {
        assert!(cb[i] == c[i]);
        i += 1;
    }
    kani::cover!(len == N);
    kani::cover!(N < 2 || cb.len() == c.len() + 1);
}

fn roundtrip<const N: usize>(bug: bool) {
    let data: [u8; N] = kani::any();
    let len: usize = kani::any();
    kani::assume(len <= N);
    let input = &data[..len];
    let mut cbuf = [0u8; 8];
    let c = if bug { HUF.compress_bug(input, &mut cbuf[..]).unwrap() } else { HUF.compress(input, &mut cbuf[..]).unwrap() };
    let mut dbuf = [0u8; N];
    match HUF.decompress(c, &mut dbuf[..]) {
        Ok(d) => {
            assert!(d.len() == len);
            let mut i = 0;
            while i < len {
                assert!(d[i] == input[i]);
                i += 1;
            }
        }
        Err(_) => assert!(false),
    }
    kani::cover!(len == N);
}

#[kani::proof]
#[kani::unwind(10)]
fn c07_compress_matches_doc_len1() {
    compress_matches_doc::<1>();
}
#[kani::proof]
#[kani::unwind(10)]
fn c07_compress_matches_doc_len2() {
    compress_matches_doc::<2>();
}
#[kani::proof]
#[kani::unwind(10)]
fn c07_roundtrip_len1() {
    roundtrip::<1>(false);
}
#[kani::proof]
#[kani::unwind(10)]
fn c07_roundtrip_bug_len1() {
    roundtrip::<1>(true);
}
#[kani::proof]
#[kani::unwind(10)]
fn c07_roundtrip_len2() {
    roundtrip::<2>(false);
}
#[kani::proof]
#[kani::unwind(10)]
fn c07_roundtrip_bug_len2() {
    roundtrip::<2>(true);
}

fn decompress_total<const N: usize, const CAP: usize>() {
    // every input <= N bytes against capacity CAP: returns, writes <= CAP, Err on overflow
    let data: [u8; N] = kani::any();
    let len: usize = kani::any();
    kani::assume(len <= N);
    let mut out = [0xaau8; CAP];
    let r = HUF.decompress(&data[..len], &mut out[..]);
    match r {
        Ok(d) => {
            assert!(d.len() <= CAP);
            kani::cover!(N >= 2, "decodes successfully");
        }
        Err(DecompressionError::Capacity(_)) => {
            kani::cover!(true, "capacity overflow reported");
        }
        Err(DecompressionError::InvalidInput) => {}
    }
}

#[kani::proof]
#[kani::unwind(10)]
fn c07_decompress_total_n1_cap0() {
    decompress_total::<1, 0>();
}
#[kani::proof]
#[kani::unwind(10)]
fn c07_decompress_total_n1_cap2() {
    decompress_total::<1, 2>();
}
#[kani::proof]
#[kani::unwind(10)]
fn c07_decompress_total_n2_cap1() {
    decompress_total::<2, 1>();
}
#[kani::proof]
#[kani::unwind(10)]
fn c07_decompress_total_n2_cap4() {
    decompress_total::<2, 4>();
}

fn capacity_contract<const CAP: usize>() {
    // compress into capacity CAP for inputs <= 1 byte: CapacityError iff compressed_len > CAP
    let data: [u8; 1] = kani::any();
    let len: usize = kani::any();
    kani::assume(len <= 1);
    let input = &data[..len];
    let need = HUF.compressed_len(input);
    let need_bug = HUF.compressed_len_bug(input);
    let mut out = [0u8; CAP];
    let r = HUF.compress(input, &mut out[..]);
    assert!(r.is_err() == (need > CAP));
    if let Ok(c) = r {
        assert!(c.len() == need);
    }
    let mut out2 = [0u8; CAP];
    let r2 = HUF.compress_bug(input, &mut out2[..]);
    assert!(r2.is_err() == (need_bug > CAP));
    kani::cover!(r.is_ok());
    kani::cover!(r2.is_err() || CAP >= 3);
}

#[kani::proof]
#[kani::unwind(6)]
fn c07_capacity_contract_cap3() {
    capacity_contract::<3>();
}
#[kani::proof]
#[kani::unwind(6)]
fn c07_capacity_contract_cap2() {
    capacity_contract::<2>();
}

#[kani::proof]
#[kani::unwind(10)]
fn c07_encoder_step() {
    // one symbol appended after an arbitrary one-symbol prefix (every bit offset 0..7 of the
    // encoder state is reached through the prefix): the emitted bits are exactly code(prefix) ++
    // code(s) ++ code(EOF). Inductive step for inputs of any length, together with the table lemmas.
    let data: [u8; 2] = kani::any();
    let mut out = [0u8; 8];
    let n = HUF.compress_impl_unsafe(&data[..], &mut out[..], false).unwrap();
    let mut doc = [0u8; 8];
    let nbits = doc_encode(&data[..], &mut doc);
    assert!(n == (nbits + 7) / 8);
    let mut i = 0;
    while i < n {
        assert!(out[i] == doc[i]);
        i += 1;
    }
    kani::cover!(nbits % 8 == 0);
    kani::cover!(nbits % 8 == 7);
}

#[kani::proof]
#[kani::unwind(6)]
fn c07_node_symbol_repr_roundtrip() {
    let a: u16 = kani::any();
    let b: u16 = kani::any();
    let n = Node { children: [a, b] };
    assert!(n.to_symbol_repr().to_node() == n);
    let bits: u32 = kani::any();
    let nb: u8 = kani::any();
    kani::assume(bits >> 24 == 0);
    let s = SymbolRepr { bits: bits, num_bits: nb };
    assert!(s.to_node().to_symbol_repr() == s);
}

fn ref_push(out: &mut [u8; 12], nbits: &mut usize, r: SymbolRepr) {
    let mut i = 0;
    while i < r.num_bits as usize {
        if (r.bits >> i) & 1 != 0 {
            out[*nbits / 8] |= 1 << (*nbits % 8);
        }
        *nbits += 1;
        i += 1;
    }
}

#[kani::proof]
#[kani::unwind(27)]
fn c07_encoder_any_code_lengths() {
    // The encoder for tables other than the built-in one (Huffman::from_frequencies allows code words
    // of up to 24 bits; the built-in table stops at 15): symbols 0 and 1 get *symbolic* code words
    // (any bits, any length 1..=24), EOF keeps its own. Compressing [0, 1] puts the second code word
    // at every bit offset; the output must be exactly the concatenation of the three code words,
    // LSB first, zero padded, and the predicted length must be exact.
    let mut h = HUF;
    let b0: u32 = kani::any();
    let n0: u8 = kani::any();
    let b1: u32 = kani::any();
    let n1: u8 = kani::any();
    kani::assume(1 <= n0 && n0 <= 24 && 1 <= n1 && n1 <= 24);
    kani::assume(b0 >> n0 == 0 && b1 >> n1 == 0);
    let r0 = SymbolRepr { bits: b0, num_bits: n0 };
    let r1 = SymbolRepr { bits: b1, num_bits: n1 };
    h.nodes[0] = r0.to_node();
    h.nodes[1] = r1.to_node();
    let eof = h.get_node(EOF).unwrap_err();
    let input = [0u8, 1u8];
    let mut out = [0u8; 12];
    let n = h.compress_impl_unsafe(&input[..], &mut out[..], false).unwrap();
    let mut reference = [0u8; 12];
    let mut nbits = 0usize;
    ref_push(&mut reference, &mut nbits, r0);
    ref_push(&mut reference, &mut nbits, r1);
    ref_push(&mut reference, &mut nbits, eof);
    assert!(n == (nbits + 7) / 8);
    assert!(n == h.compressed_len(&input[..]));
    let mut i = 0;
    while i < 12 {
        assert!(out[i] == if i < n { reference[i] } else { 0 });
        i += 1;
    }
    kani::cover!(n0 == 24 && n1 == 24);
    kani::cover!(n0 == 3 && n1 >= 17);
}

fn encoder_code_lengths<const N0: u8, const N1: u8>() {
    // as c07_encoder_any_code_lengths with the two code-word lengths fixed (bits symbolic): shift
    // amounts are concrete, which keeps the query small
    let mut h = HUF;
    let b0: u32 = kani::any();
    let b1: u32 = kani::any();
    kani::assume(b0 >> N0 == 0 && b1 >> N1 == 0);
    let r0 = SymbolRepr { bits: b0, num_bits: N0 };
    let r1 = SymbolRepr { bits: b1, num_bits: N1 };
    h.nodes[0] = r0.to_node();
    h.nodes[1] = r1.to_node();
    let eof = h.get_node(EOF).unwrap_err();
    let input = [0u8, 1u8];
    let mut out = [0u8; 12];
    let n = h.compress_impl_unsafe(&input[..], &mut out[..], false).unwrap();
    let mut reference = [0u8; 12];
    let mut nbits = 0usize;
    ref_push(&mut reference, &mut nbits, r0);
    ref_push(&mut reference, &mut nbits, r1);
    ref_push(&mut reference, &mut nbits, eof);
    assert!(n == (nbits + 7) / 8);
    assert!(n == h.compressed_len(&input[..]));
    let mut i = 0;
    while i < 12 {
        assert!(out[i] == if i < n { reference[i] } else { 0 });
        i += 1;
    }
}

#[kani::proof]
#[kani::unwind(27)]
fn c07_encoder_code_lengths_1_24() {
    encoder_code_lengths::<1, 24>();
}

#[kani::proof]
#[kani::unwind(27)]
fn c07_encoder_code_lengths_7_17() {
    encoder_code_lengths::<7, 17>();
}

#[kani::proof]
#[kani::unwind(27)]
fn c07_encoder_code_lengths_24_24() {
    encoder_code_lengths::<24, 24>();
}

#[kani::proof]
#[kani::unwind(27)]
fn c07_encoder_code_lengths_8_16() {
    encoder_code_lengths::<8, 16>();
}

#[kani::proof]
#[kani::unwind(27)]
fn c07_encoder_code_lengths_15_15() {
    encoder_code_lengths::<15, 15>();
}

#[kani::proof]
#[kani::unwind(27)]
fn c07_encoder_code_lengths_3_20() {
    encoder_code_lengths::<3, 20>();
}

#[kani::proof]
#[kani::unwind(27)]
fn c07_encoder_code_lengths_17_9() {
    encoder_code_lengths::<17, 9>();
}

impl Huffman {
    /// access to the codec oracle's record from harnesses of other crates
    pub fn verif_oracle() -> &'static mut Oracle {
        unsafe { &mut *core::ptr::addr_of_mut!(ORACLE) }
    }
}
