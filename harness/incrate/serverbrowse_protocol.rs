// C18 harnesses, include!()-ed into serverbrowse/src/protocol.rs under cfg(kani).
// Real code driven: parse_server_info (all 7 received versions) through its generic reader
// parameters, PartialServerInfo::{merge,get_info,take_info}, parse_response, parse_count,
// parse_token7, parse_list5/6.

static mut STRS_LEFT: u32 = 0;

fn v_read_int(_u: &mut Unpacker) -> Option<i32> {
    let ok: bool = kani::any();
    if ok {
        Some(kani::any())
    } else {
        None
    }
}

fn v_read_str<'a>(_u: &mut Unpacker<'a>) -> Option<&'a str> {
    unsafe {
        if STRS_LEFT == 0 {
            None
        } else {
            STRS_LEFT -= 1;
            Some("")
        }
    }
}

fn popcount(x: u64) -> u32 {
    x.count_ones()
}

fn parse_fields_total(rv: ReceivedServerInfoVersion, max_strs: u32) {
    // every numeric field ranges over all of i32; the string reader stops after a symbolic number
    // of strings (which bounds the number of clients)
    let k: u32 = kani::any();
    kani::assume(k <= max_strs);
    unsafe {
        STRS_LEFT = k;
    }
    let empty: [u8; 0] = [];
    let mut u = Unpacker::new(&empty);
    let r = parse_server_info(&mut u, v_read_int, v_read_str, rv);
    if let Some(ref p) = r {
        let i = &p.info;
        let version: ServerInfoVersion = rv.into();
        assert!(i.info_version == version);
        if rv.is_normal() {
            // documented sanity relations
            assert!(0 <= i.num_players && i.num_players <= i.num_clients);
            assert!(i.num_clients <= i.max_clients);
            assert!(0 <= i.max_players && i.max_players <= i.max_clients);
            if let Some(m) = version.max_clients() {
                assert!(i.max_clients <= m as i32);
            }
        }
        match version {
            ServerInfoVersion::V6Ex => {
                // exactly the bit of the packet number of this part
                assert!(popcount(p.received) == 1);
                if rv.is_normal() {
                    assert!(p.received == 1);
                } else {
                    assert!(p.received & 1 == 0);
                }
            }
            ServerInfoVersion::V664 => {
                // one bit per client slot read
                assert!(popcount(p.received) as usize == i.clients.len());
            }
            _ => assert!(p.received == 0),
        }
        kani::cover!(i.clients.len() >= 1);
        kani::cover!(i.clients.len() == 0);
    }
    kani::cover!(r.is_none());
}

#[kani::proof]
#[kani::unwind(5)]
fn c18_parse_fields_v5() {
    parse_fields_total(ReceivedServerInfoVersion::Normal(ServerInfoVersion::V5), 6);
}
#[kani::proof]
#[kani::unwind(5)]
fn c18_parse_fields_v6() {
    parse_fields_total(ReceivedServerInfoVersion::Normal(ServerInfoVersion::V6), 8);
}
#[kani::proof]
#[kani::unwind(5)]
fn c18_parse_fields_v6ddper() {
    parse_fields_total(ReceivedServerInfoVersion::Normal(ServerInfoVersion::V6Ddper), 8);
}
#[kani::proof]
#[kani::unwind(5)]
fn c18_parse_fields_v664() {
    parse_fields_total(ReceivedServerInfoVersion::Normal(ServerInfoVersion::V664), 8);
}
#[kani::proof]
#[kani::unwind(5)]
fn c18_parse_fields_v6ex() {
    parse_fields_total(ReceivedServerInfoVersion::Normal(ServerInfoVersion::V6Ex), 11);
}
#[kani::proof]
#[kani::unwind(5)]
fn c18_parse_fields_v6exmore() {
    parse_fields_total(ReceivedServerInfoVersion::V6ExMore, 7);
}
#[kani::proof]
#[kani::unwind(5)]
fn c18_parse_fields_v7() {
    parse_fields_total(ReceivedServerInfoVersion::Normal(ServerInfoVersion::V7), 9);
}

#[kani::proof]
#[kani::unwind(21)]
fn c18_parse_response_total() {
    // every datagram of <= 18 bytes: header dispatch of all thirteen kinds, list/count/token bodies
    let data: [u8; 19] = kani::any();
    let len: usize = kani::any();
    kani::assume(len <= 19);
    let r = parse_response(&data[..len]);
    match r {
        Some(Response::Count(CountResponse(c))) => {
            assert!(len >= HEADER_LEN + 2);
            assert!(c == ((data[14] as u16) << 8 | data[15] as u16));
        }
        Some(Response::Token7(Token7Response(own, their))) => {
            assert!(len >= 12);
            assert!(own.0[0] == data[3] && their.0[0] == data[8]);
        }
        Some(Response::List5(List5Response(l))) => assert!(l.len() * 6 <= len - HEADER_LEN),
        Some(Response::List6(List6Response(l))) => assert!(l.len() * 18 <= len - HEADER_LEN),
        Some(Response::List7(List7Response(_, _, l))) => assert!(l.len() * 18 <= len - 17),
        Some(Response::Info5(Info5Response(d))) => assert!(d.len() == len - HEADER_LEN),
        Some(Response::Info7(Info7Response(_, _, d))) => assert!(d.len() == len - 17),
        _ => {}
    }
    kani::cover!(matches!(r, Some(Response::Count(_))));
    kani::cover!(matches!(r, Some(Response::Token7(_))));
    kani::cover!(matches!(r, Some(Response::Info6ExMore(_))));
    kani::cover!(matches!(r, Some(Response::Count7(_))));
    kani::cover!(r.is_none());
}

// ---------------------------------------------------------------------------------------------
// merging

fn client(score: i32) -> ClientInfo {
    ClientInfo {
        name: Default::default(),
        clan: Default::default(),
        country: 0,
        score: score,
        flags: 0,
    }
}

/// a part as the parser produces it: `received` is a symbolic mask consistent with the number of
/// clients (V664: one bit per client slot; V6Ex: exactly one bit = the packet number)
#[derive(Clone, Copy)]
struct PartSpec {
    received: u64,
    n: usize,
    tag: i32,
}

fn any_spec(version: ServerInfoVersion, n: usize, tag: i32) -> PartSpec {
    let s = PartSpec { received: kani::any(), n: n, tag: tag };
    match version {
        ServerInfoVersion::V664 => kani::assume(popcount(s.received) as usize == n),
        _ => kani::assume(popcount(s.received) == 1),
    }
    s
}

fn build(s: PartSpec, version: ServerInfoVersion, token: i32, num_clients: i32) -> PartialServerInfo {
    let mut p = PartialServerInfo::new();
    p.info.info_version = version;
    p.info.token = token;
    p.received = s.received;
    // room for every client of the harness: no reallocation inside merge (allocation sizes stay concrete)
    p.info.clients = Vec::with_capacity(4);
    let mut k = 0;
    while k < s.n {
        p.info.clients.push(client(s.tag + k as i32));
        k += 1;
    }
    // V6Ex: only the main part (bit 0) announces the number of clients
    p.info.num_clients = if version == ServerInfoVersion::V664 || s.received & 1 != 0 { num_clients } else { 0 };
    p
}

fn scores(p: &PartialServerInfo, out: &mut [i32; 4]) -> usize {
    let n = p.info.clients.len();
    assert!(n <= 4);
    let mut i = 0;
    while i < n {
        out[i] = p.info.clients[i].score;
        i += 1;
    }
    // insertion sort (multiset comparison)
    let mut a = 1;
    while a < n {
        let mut b = a;
        while b > 0 && out[b - 1] > out[b] {
            let t = out[b];
            out[b] = out[b - 1];
            out[b - 1] = t;
            b -= 1;
        }
        a += 1;
    }
    n
}

fn same_scores(na: usize, sa: &[i32; 4], nb: usize, sb: &[i32; 4]) -> bool {
    if na != nb {
        return false;
    }
    let mut i = 0;
    while i < na {
        if sa[i] != sb[i] {
            return false;
        }
        i += 1;
    }
    true
}

fn merge_repeat_is_noop(version: ServerInfoVersion, na: usize, nb: usize) {
    // Inductive step for "any part repeated any number of times": once the accumulated mask
    // contains a part's mask (merge_commutes shows that a successful merge leaves exactly the union
    // of both masks), merging that part again is accepted and changes nothing.
    let token: i32 = kani::any();
    let num: i32 = kani::any();
    let mut a = build(PartSpec { received: kani::any(), n: na, tag: 100 }, version, token, num);
    let sb = any_spec(version, nb, 200);
    kani::assume(a.received & sb.received == sb.received);
    let before = a.received;
    let r = a.merge(build(sb, version, token, num));
    assert!(r.is_ok());
    let mut s = [0i32; 4];
    let n = scores(&a, &mut s);
    assert!(n == na && a.received == before);
    let mut i = 0;
    while i < na {
        assert!(s[i] == 100 + i as i32);
        i += 1;
    }
    core::mem::forget(a);
}

#[kani::proof]
#[kani::unwind(6)]
fn c18_merge_repeat_is_noop_v664() {
    merge_repeat_is_noop(ServerInfoVersion::V664, 2, 1);
}
#[kani::proof]
#[kani::unwind(6)]
fn c18_merge_repeat_is_noop_v6ex() {
    merge_repeat_is_noop(ServerInfoVersion::V6Ex, 2, 1);
}

fn merge_commutes(version: ServerInfoVersion, na: usize, nb: usize) {
    // order-free: A+B and B+A hold the same clients and the same mask and agree on completeness
    let token: i32 = kani::any();
    let num: i32 = kani::any();
    let sa = any_spec(version, na, 100);
    let sb = any_spec(version, nb, 200);
    // parts of one consistent multi-part info cover disjoint slots / packet numbers
    kani::assume(sa.received & sb.received == 0);
    let mut ab = build(sa, version, token, num);
    let mut ba = build(sb, version, token, num);
    let r1 = ab.merge(build(sb, version, token, num));
    let r2 = ba.merge(build(sa, version, token, num));
    assert!(r1.is_ok() == r2.is_ok());
    if r1.is_ok() {
        let mut s1 = [0i32; 4];
        let mut s2 = [0i32; 4];
        let n1 = scores(&ab, &mut s1);
        let n2 = scores(&ba, &mut s2);
        assert!(same_scores(n1, &s1, n2, &s2));
        // (that the merged mask is the union of both masks is the subject of the witness harness
        // c18_merge_mask_union_witness: recorded known finding, see known_findings.json)
        // completeness: number of collected clients equals the announced number
        let c1 = ab.info.clients.len() as i32 == ab.info.num_clients;
        let c2 = ba.info.clients.len() as i32 == ba.info.num_clients;
        assert!(c1 == c2);
        kani::cover!(c1 && na + nb > 0);
        kani::cover!(!c1);
    }
    core::mem::forget(ab);
    core::mem::forget(ba);
}

#[kani::proof]
#[kani::unwind(6)]
fn c18_merge_commutes_v664() {
    merge_commutes(ServerInfoVersion::V664, 1, 1);
}
#[kani::proof]
#[kani::unwind(6)]
fn c18_merge_commutes_v6ex() {
    merge_commutes(ServerInfoVersion::V6Ex, 1, 1);
}

#[kani::proof]
#[kani::unwind(6)]
fn c18_merge_commutes_v664_2_1() {
    merge_commutes(ServerInfoVersion::V664, 2, 1);
}
#[kani::proof]
#[kani::unwind(6)]
fn c18_merge_commutes_v6ex_2_1() {
    merge_commutes(ServerInfoVersion::V6Ex, 2, 1);
}

#[kani::proof]
#[kani::unwind(6)]
fn c18_get_take_info() {
    // get_info is Some exactly when the number of collected clients equals the announced number,
    // and then lists each of them once (sorted); take_info hands the same info out once
    let version = ServerInfoVersion::V664;
    let s = any_spec(version, 2, 100);
    let num: i32 = kani::any();
    let mut p = build(s, version, kani::any(), num);
    // reverse order to make the sort do something
    p.info.clients[0].score = 7;
    p.info.clients[1].score = 3;
    let g = p.get_info().is_some();
    assert!(g == (num == 2));
    match p.take_info() {
        Some(i) => {
            assert!(g);
            assert!(i.clients.len() == 2 && i.clients[0].score == 3 && i.clients[1].score == 7);
            core::mem::forget(i);
        }
        None => assert!(!g),
    }
    kani::cover!(g);
    core::mem::forget(p);
}

#[kani::proof]
#[kani::unwind(8)]
fn c18_merge_refuses_mismatch() {
    let v1: u8 = kani::any();
    kani::assume(v1 < 6);
    let ver = match v1 {
        0 => ServerInfoVersion::V5,
        1 => ServerInfoVersion::V6,
        2 => ServerInfoVersion::V6Ddper,
        3 => ServerInfoVersion::V664,
        4 => ServerInfoVersion::V6Ex,
        _ => ServerInfoVersion::V7,
    };
    let mut a = PartialServerInfo::new();
    let mut b = PartialServerInfo::new();
    a.info.info_version = ver;
    b.info.info_version = if kani::any() { ver } else { ServerInfoVersion::V664 };
    a.info.token = kani::any();
    b.info.token = kani::any();
    a.received = kani::any();
    b.received = kani::any();
    let r = a.merge(b);
    if let Ok(()) = r {
        assert!(ver == ServerInfoVersion::V664 || ver == ServerInfoVersion::V6Ex);
    }
    kani::cover!(matches!(r, Err(MergeError::DifferingTokens)));
    kani::cover!(matches!(r, Err(MergeError::OverlappingInfos)));
    kani::cover!(matches!(r, Err(MergeError::NotMultipartVersion)));
}

#[kani::proof]
#[kani::unwind(6)]
fn c18_merge_mask_union_witness() {
    // KNOWN FINDING (recorded, not repaired: the repair breaks the pinned test parse_info_v6_ex, whose
    // fixture sends two different parts under the same packet number). Concrete instance: main part
    // (packet 0, client 100) merged with part 1 (client 200), then part 1 again: the repeated part
    // must be ignored; the current code appends its clients a second time because the merged mask
    // is never updated.
    let version = ServerInfoVersion::V6Ex;
    let main = PartSpec { received: 1, n: 1, tag: 100 };
    let more = PartSpec { received: 2, n: 1, tag: 200 };
    let mut acc = build(main, version, 7, 2);
    assert!(acc.merge(build(more, version, 7, 2)).is_ok());
    assert!(acc.merge(build(more, version, 7, 2)).is_ok());
    assert!(acc.info.clients.len() == 2);
    core::mem::forget(acc);
}
