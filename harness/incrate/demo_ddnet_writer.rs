// C15 harnesses (typed writer), include!()-ed into demo/src/ddnet/writer.rs under cfg(kani).

use libtw2_gamenet_common::error::Error as GError;
use libtw2_gamenet_common::msg::MessageId;
use libtw2_gamenet_common::msg::SystemOrGame;
use libtw2_gamenet_common::snap_obj::TypeId;
use libtw2_gamenet_common::traits::Message;
use libtw2_gamenet_common::traits::ProtocolStatic;
use libtw2_gamenet_common::traits::SnapObj;

pub struct DObj;
impl SnapObj for DObj {
    fn decode_obj<W: libtw2_warn::Warn<libtw2_packer::ExcessData>>(_: &mut W, _: TypeId, _: &mut libtw2_packer::IntUnpacker) -> Result<Self, GError> {
        Err(GError::UnknownId)
    }
    fn obj_type_id(&self) -> TypeId {
        TypeId::Ordinal(1)
    }
    fn encode(&self) -> &[i32] {
        &[]
    }
}
pub struct DMsg;
impl<'a> Message<'a> for DMsg {
    fn decode_msg<W: libtw2_warn::Warn<libtw2_packer::Warning>>(_: &mut W, _: SystemOrGame<MessageId, MessageId>, _: &mut libtw2_packer::Unpacker<'a>) -> Result<Self, GError> {
        Err(GError::UnknownId)
    }
    fn msg_id(&self) -> SystemOrGame<MessageId, MessageId> {
        SystemOrGame::Game(MessageId::Ordinal(1))
    }
    fn encode_msg<'d, 's>(&self, p: libtw2_packer::Packer<'d, 's>) -> Result<&'d [u8], libtw2_buffer::CapacityError> {
        Ok(p.written())
    }
}
pub struct DP;
impl ProtocolStatic for DP {
    type SnapObj = DObj;
    fn obj_size(_: u16) -> Option<u32> {
        None
    }
}
impl<'a> Protocol<'a> for DP {
    type Game = DMsg;
    type System = DMsg;
}

/// The writer owns three 64 KiB buffers; building it by value moves ~200 KB through CBMC's array
/// theory (> 12 GB), and a zeroed *static* of that size stalls CBMC's instrumentation passes. It is
/// therefore built in place in zero-initialised heap storage (one calloc object): an all-zero
/// `ArrayVec<[u8; N]>` is the empty vector, the small fields are written individually.
fn new_writer() -> &'static mut DemoWriter<'static, DP> {
    unsafe {
        let p = std::alloc::alloc_zeroed(std::alloc::Layout::new::<DemoWriter<'static, DP>>()) as *mut DemoWriter<'static, DP>;
        crate::Writer::verif_init_in_place(core::ptr::addr_of_mut!((*p).inner), None);
        core::ptr::addr_of_mut!((*p).last_tick).write(-1);
        core::ptr::addr_of_mut!((*p).last_keyframe).write(None);
        core::ptr::addr_of_mut!((*p).snap).write(Snap::default());
        core::ptr::addr_of_mut!((*p).delta).write(Delta::default());
        core::ptr::addr_of_mut!((*p).builder).write(snap::Builder::default());
        core::ptr::addr_of_mut!((*p).i32_buf).write(Vec::new());
        &mut *p
    }
}

#[kani::proof]
#[kani::unwind(8)]
#[kani::stub(crate::writer::Writer::write_chunk_impl, crate::writer::Writer::verif_write_chunk_impl_stub)]
fn c15_ddnet_tick_refusal() {
    // tick numbers that do not strictly increase are refused with an error, not a panic, and the
    // recording stays usable afterwards
    let t1: i32 = kani::any();
    let t2: i32 = kani::any();
    kani::assume(t1 >= 0 && t2 <= t1);
    let w = new_writer();
    // results are leaked, not dropped: the drop glue of the (recursive) binrw::Error inside
    // WriteError is unrolled by symbolic execution otherwise (> 8 GB)
    let r1 = w.write_snap(t1, core::iter::empty::<(&DObj, u16)>());
    let ok1 = r1.is_ok();
    core::mem::forget(r1);
    assert!(ok1);
    let r = w.write_snap(t2, core::iter::empty::<(&DObj, u16)>());
    let refused = matches!(r, Err(WriteError::TooLowTickNumber));
    core::mem::forget(r);
    assert!(refused);
    // the recording stays usable afterwards
    if t1 < i32::MAX {
        let r3 = w.write_snap(t1 + 1, core::iter::empty::<(&DObj, u16)>());
        let ok3 = r3.is_ok();
        core::mem::forget(r3);
        assert!(ok3);
    }
    kani::cover!(t2 == t1);
    kani::cover!(t2 < 0);
}

#[kani::proof]
#[kani::unwind(8)]
#[kani::stub(crate::writer::Writer::write_chunk_impl, crate::writer::Writer::verif_write_chunk_impl_stub)]
fn c15_ddnet_first_tick_negative() {
    let t: i32 = kani::any();
    kani::assume(t < 0);
    let w = new_writer();
    let r = w.write_snap(t, core::iter::empty::<(&DObj, u16)>());
    let refused = matches!(r, Err(WriteError::TooLowTickNumber));
    core::mem::forget(r);
    assert!(refused);
}

#[kani::proof]
#[kani::unwind(8)]
#[kani::stub(crate::writer::Writer::write_chunk_impl, crate::writer::Writer::verif_write_chunk_impl_stub)]
fn c15_ddnet_increasing_ticks_accepted() {
    // strictly increasing ticks are accepted on both sides of the 250-tick key-frame interval
    let t1: i32 = kani::any();
    let t2: i32 = kani::any();
    kani::assume(t1 >= 0 && t2 > t1);
    let w = new_writer();
    let r1 = w.write_snap(t1, core::iter::empty::<(&DObj, u16)>());
    let ok1 = r1.is_ok();
    core::mem::forget(r1);
    let r2 = w.write_snap(t2, core::iter::empty::<(&DObj, u16)>());
    let ok2 = r2.is_ok();
    core::mem::forget(r2);
    assert!(ok1 && ok2);
    assert!(w.last_tick == t2);
    let kf = t2 as i64 - t1 as i64 > 250;
    assert!(w.last_keyframe == Some(if kf { t2 } else { t1 }));
    kani::cover!(kf);
    kani::cover!(!kf);
}

fn writer_after_tick(last: i32, last_keyframe: Option<i32>) -> &'static mut DemoWriter<'static, DP> {
    // the state write_snap leaves behind after a successful call for tick `last` (last == -1: fresh
    // writer): last_tick == last and the raw writer's prev_tick == Some(last) (write_snap's last
    // statements / write_tick's last statement), built field by field
    let w = new_writer();
    w.last_tick = last;
    w.last_keyframe = last_keyframe;
    w.inner.verif_set_prev_tick(if last >= 0 { Some(last) } else { None });
    w
}

#[kani::proof]
#[kani::unwind(8)]
#[kani::stub(crate::writer::Writer::write_chunk_impl, crate::writer::Writer::verif_write_chunk_impl_stub)]
fn c15_ddnet_refuses_non_increasing_tick() {
    // one write_snap call from the state after any tick `last` (or a fresh writer): a tick that does
    // not strictly increase (or is negative) is refused with TooLowTickNumber - no panic - and the
    // writer state is untouched, so the recording stays usable
    let last: i32 = kani::any();
    kani::assume(last >= -1);
    let kf: Option<i32> = if last >= 0 { Some(kani::any()) } else { None };
    if let Some(k) = kf {
        kani::assume(0 <= k && k <= last);
    }
    let t: i32 = kani::any();
    kani::assume(t <= last || t < 0);
    let w = writer_after_tick(last, kf);
    let r = w.write_snap(t, core::iter::empty::<(&DObj, u16)>());
    let refused = matches!(r, Err(WriteError::TooLowTickNumber));
    core::mem::forget(r);
    assert!(refused);
    assert!(w.last_tick == last && w.last_keyframe == kf);
    assert!(w.inner.verif_prev_tick() == if last >= 0 { Some(last) } else { None });
    kani::cover!(t == last && last >= 0, "same tick again");
    kani::cover!(last == -1 && t == -1, "fresh writer, tick -1");
    kani::cover!(t < last && t >= 0, "lower tick");
}

fn refused_and_untouched(last: i32, kf: Option<i32>, t: i32) {
    // built by value as a local (possible with the buffer constant scaled to 128 bytes): the fields are
    // then ordinary SSA variables and the refusal test folds; through the zero-initialised heap
    // object used above it is a byte-level read that does not fold
    let mut w: DemoWriter<'static, DP> = DemoWriter {
        inner: crate::Writer::verif_new(if last >= 0 { Some(last) } else { None }),
        last_tick: last,
        last_keyframe: kf,
        snap: Snap::default(),
        builder: snap::Builder::default(),
        delta: Delta::default(),
        buf: arrayvec::ArrayVec::new(),
        i32_buf: Vec::new(),
        protocol: PhantomData,
    };
    let r = w.write_snap(t, core::iter::empty::<(&DObj, u16)>());
    let refused = matches!(r, Err(WriteError::TooLowTickNumber));
    core::mem::forget(r);
    assert!(refused);
    assert!(w.last_tick == last && w.last_keyframe == kf);
    assert!(w.inner.verif_prev_tick() == if last >= 0 { Some(last) } else { None });
    core::mem::forget(w);
}

#[kani::proof]
#[kani::unwind(8)]
#[kani::stub(crate::writer::Writer::write_chunk_impl, crate::writer::Writer::verif_write_chunk_impl_stub)]
fn c15_ddnet_refuses_same_tick() {
    // the tick that was just written, for every tick value and key-frame position: refused, not a
    // panic, writer untouched. (The tick is passed as the *same* symbolic value, so the refusal test
    // folds during symbolic execution and the - then unreachable - write path is not unrolled; with
    // two independent symbolic ticks the query did not finish in 25 min.)
    let last: i32 = kani::any();
    kani::assume(last >= 0);
    let k: i32 = kani::any();
    kani::assume(0 <= k && k <= last);
    refused_and_untouched(last, Some(k), last);
}

#[kani::proof]
#[kani::unwind(8)]
#[kani::stub(crate::writer::Writer::write_chunk_impl, crate::writer::Writer::verif_write_chunk_impl_stub)]
fn c15_ddnet_refuses_lower_and_negative_ticks() {
    // boundary pairs (previous tick, refused tick), concrete so that the refusal test folds
    refused_and_untouched(-1, None, -1);
    refused_and_untouched(-1, None, i32::MIN);
    refused_and_untouched(0, Some(0), -1);
    refused_and_untouched(0, Some(0), 0);
    refused_and_untouched(5, Some(0), 4);
    refused_and_untouched(300, Some(40), 299);
    refused_and_untouched(i32::MAX, Some(7), i32::MAX);
    refused_and_untouched(i32::MAX, Some(7), i32::MIN);
}

fn writer_value(last: i32, kf: Option<i32>) -> DemoWriter<'static, DP> {
    DemoWriter {
        inner: crate::Writer::verif_new(if last >= 0 { Some(last) } else { None }),
        last_tick: last,
        last_keyframe: kf,
        snap: Snap::default(),
        builder: snap::Builder::default(),
        delta: Delta::default(),
        buf: arrayvec::ArrayVec::new(),
        i32_buf: Vec::new(),
        protocol: PhantomData,
    }
}

#[kani::proof]
#[kani::unwind(8)]
#[kani::stub(crate::writer::Writer::write_chunk_impl, crate::writer::Writer::verif_write_chunk_impl_stub)]
fn c15_ddnet_write_snap_step() {
    // one write_snap call with an empty object set from the state after any tick (or a fresh writer)
    // with ANY tick: refused exactly when the tick does not strictly increase or is negative (writer
    // untouched), otherwise accepted with the documented bookkeeping: last tick, raw writer's previous
    // tick, and a key frame exactly at the start and when more than 250 ticks have passed since the last
    let last: i32 = kani::any();
    kani::assume(last >= -1);
    let kf: Option<i32> = if last >= 0 { Some(kani::any()) } else { None };
    if let Some(k) = kf {
        kani::assume(0 <= k && k <= last);
    }
    let t: i32 = kani::any();
    let mut w = writer_value(last, kf);
    let r = w.write_snap(t, core::iter::empty::<(&DObj, u16)>());
    let ok = r.is_ok();
    let refused = matches!(r, Err(WriteError::TooLowTickNumber));
    core::mem::forget(r);
    if t <= last || t < 0 {
        assert!(refused);
        assert!(w.last_tick == last && w.last_keyframe == kf);
        assert!(w.inner.verif_prev_tick() == if last >= 0 { Some(last) } else { None });
    } else {
        assert!(ok);
        assert!(w.last_tick == t && w.inner.verif_prev_tick() == Some(t));
        let keyframe = match kf {
            None => true,
            Some(k) => t as i64 - k as i64 > 250,
        };
        assert!(w.last_keyframe == if keyframe { Some(t) } else { kf });
    }
    kani::cover!(refused && t == last);
    kani::cover!(ok && kf.is_some() && w.last_keyframe == kf, "delta frame");
    kani::cover!(ok && kf.is_some() && w.last_keyframe != kf, "key frame after 250 ticks");
    core::mem::forget(w);
}
