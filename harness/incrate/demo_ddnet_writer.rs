// C15 harnesses (typed writer), include!()-ed into demo/src/ddnet/writer.rs under cfg(kani).

use libtw2_gamenet_common::error::Error as GError;
use libtw2_gamenet_common::msg::MessageId;
use libtw2_gamenet_common::msg::SystemOrGame;
use libtw2_gamenet_common::snap_obj::TypeId;
use libtw2_gamenet_common::traits::Message;
use libtw2_gamenet_common::traits::ProtocolStatic;
use libtw2_gamenet_common::traits::SnapObj;

pub struct DObj;
impl SnapObj for DObj {
    fn decode_obj<W: libtw2_warn::Warn<libtw2_packer::ExcessData>>(_: &mut W, _: TypeId, _: &mut libtw2_packer::IntUnpacker) -> Result<Self, GError> {
        Err(GError::UnknownId)
    }
    fn obj_type_id(&self) -> TypeId {
        TypeId::Ordinal(1)
    }
    fn encode(&self) -> &[i32] {
        &[]
    }
}
pub struct DMsg;
impl<'a> Message<'a> for DMsg {
    fn decode_msg<W: libtw2_warn::Warn<libtw2_packer::Warning>>(_: &mut W, _: SystemOrGame<MessageId, MessageId>, _: &mut libtw2_packer::Unpacker<'a>) -> Result<Self, GError> {
        Err(GError::UnknownId)
    }
    fn msg_id(&self) -> SystemOrGame<MessageId, MessageId> {
        SystemOrGame::Game(MessageId::Ordinal(1))
    }
    fn encode_msg<'d, 's>(&self, p: libtw2_packer::Packer<'d, 's>) -> Result<&'d [u8], libtw2_buffer::CapacityError> {
        Ok(p.written())
    }
}
pub struct DP;
impl ProtocolStatic for DP {
    type SnapObj = DObj;
    fn obj_size(_: u16) -> Option<u32> {
        None
    }
}
impl<'a> Protocol<'a> for DP {
    type Game = DMsg;
    type System = DMsg;
}

/// The writer owns three 64 KiB buffers; building it by value moves ~200 KB through CBMC's array
/// theory (> 12 GB). It is therefore built in place in zeroed static storage: an all-zero
/// `ArrayVec<[u8; N]>` is the empty vector, the small fields are written individually.
static mut WRITER_MEM: core::mem::MaybeUninit<DemoWriter<'static, DP>> = core::mem::MaybeUninit::zeroed();

fn new_writer() -> &'static mut DemoWriter<'static, DP> {
    unsafe {
        let p: *mut DemoWriter<'static, DP> = (*core::ptr::addr_of_mut!(WRITER_MEM)).as_mut_ptr();
        crate::Writer::verif_init_in_place(core::ptr::addr_of_mut!((*p).inner), None);
        core::ptr::addr_of_mut!((*p).last_tick).write(-1);
        core::ptr::addr_of_mut!((*p).last_keyframe).write(None);
        core::ptr::addr_of_mut!((*p).snap).write(Snap::default());
        core::ptr::addr_of_mut!((*p).delta).write(Delta::default());
        core::ptr::addr_of_mut!((*p).builder).write(snap::Builder::default());
        core::ptr::addr_of_mut!((*p).i32_buf).write(Vec::new());
        &mut *p
    }
}

#[kani::proof]
#[kani::unwind(8)]
#[kani::stub(libtw2_huffman::Huffman::compress_impl_unsafe, libtw2_huffman::Huffman::verif_compress_oracle)]
fn c15_ddnet_tick_refusal() {
    // tick numbers that do not strictly increase are refused with an error, not a panic, and the
    // recording stays usable afterwards
    let t1: i32 = kani::any();
    let t2: i32 = kani::any();
    kani::assume(t1 >= 0 && t2 <= t1);
    let w = new_writer();
    assert!(w.write_snap(t1, core::iter::empty::<(&DObj, u16)>()).is_ok());
    let r = w.write_snap(t2, core::iter::empty::<(&DObj, u16)>());
    assert!(matches!(r, Err(WriteError::TooLowTickNumber)));
    kani::cover!(t2 == t1);
    kani::cover!(t2 < 0);
}

#[kani::proof]
#[kani::unwind(8)]
#[kani::stub(libtw2_huffman::Huffman::compress_impl_unsafe, libtw2_huffman::Huffman::verif_compress_oracle)]
fn c15_ddnet_first_tick_negative() {
    let t: i32 = kani::any();
    kani::assume(t < 0);
    let w = new_writer();
    let r = w.write_snap(t, core::iter::empty::<(&DObj, u16)>());
    assert!(matches!(r, Err(WriteError::TooLowTickNumber)));
}

#[kani::proof]
#[kani::unwind(8)]
#[kani::stub(libtw2_huffman::Huffman::compress_impl_unsafe, libtw2_huffman::Huffman::verif_compress_oracle)]
fn c15_ddnet_increasing_ticks_accepted() {
    // strictly increasing ticks are accepted on both sides of the 250-tick key-frame interval
    let t1: i32 = kani::any();
    let t2: i32 = kani::any();
    kani::assume(t1 >= 0 && t2 > t1);
    let w = new_writer();
    assert!(w.write_snap(t1, core::iter::empty::<(&DObj, u16)>()).is_ok());
    assert!(w.write_snap(t2, core::iter::empty::<(&DObj, u16)>()).is_ok());
    assert!(w.last_tick == t2);
    let kf = t2 as i64 - t1 as i64 > 250;
    assert!(w.last_keyframe == Some(if kf { t2 } else { t1 }));
    kani::cover!(kf);
    kani::cover!(!kf);
}
