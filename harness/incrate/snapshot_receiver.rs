// C12 harnesses, include!()-ed into snapshot/src/receiver.rs under cfg(kani).
// Real code driven: DeltaReceiver::{snap, snap_single, snap_empty, can_receive, finish_delta},
// crate::snap::{delta_chunks, DeltaChunks::next}.

use crate::snap::delta_chunks;
use libtw2_gamenet_snap::SnapMsg;

pub struct WCnt {
    pub duplicate: u32,
    pub differing: u32,
}
impl Warn<Warning> for WCnt {
    fn warn(&mut self, w: Warning) {
        match w {
            Warning::DuplicateSnap => self.duplicate += 1,
            Warning::DifferingAttributes => self.differing += 1,
        }
    }
}

#[kani::proof]
#[kani::unwind(6)]
fn c12_delta_chunks_partition() {
    // every data length 0..=3*900+1: ceil(len/900) messages of the right form, consecutive
    // sub-slices covering the data exactly, same tick / relative base tick / crc on each
    let data = [0u8; 2701];
    let len: usize = kani::any();
    kani::assume(len <= 2701);
    let tick: i32 = kani::any();
    let base: i32 = kani::any();
    // arbitrary tick / base tick values: the relative base tick is the wrapping difference
    let crc: i32 = kani::any();
    let d = &data[..len];
    let mut it = delta_chunks(tick, base, d, crc);
    let expect_parts = (len + 899) / 900;
    let mut k = 0usize;
    let mut pos = 0usize;
    while let Some(m) = it.next() {
        match m {
            SnapMsg::SnapEmpty(e) => {
                assert!(expect_parts == 0);
                assert!(e.tick == tick && e.delta_tick == tick.wrapping_sub(base));
            }
            SnapMsg::SnapSingle(s) => {
                assert!(expect_parts == 1);
                assert!(s.tick == tick && s.delta_tick == tick.wrapping_sub(base) && s.crc == crc);
                assert!(s.data.as_ptr() == d.as_ptr() && s.data.len() == len);
                pos += s.data.len();
            }
            SnapMsg::Snap(s) => {
                assert!(expect_parts >= 2);
                assert!(s.tick == tick && s.delta_tick == tick.wrapping_sub(base) && s.crc == crc);
                assert!(s.num_parts as usize == expect_parts && s.part as usize == k);
                assert!(s.data.as_ptr() as usize == d.as_ptr() as usize + pos);
                assert!(s.data.len() == if k + 1 < expect_parts { 900 } else { len - 900 * k });
                pos += s.data.len();
            }
        }
        k += 1;
        assert!(k <= 4);
    }
    assert!(k == if expect_parts == 0 { 1 } else { expect_parts });
    assert!(pos == len);
    kani::cover!(expect_parts == 4);
    kani::cover!(expect_parts == 1 && len == 900);
    kani::cover!(len == 0);
}

#[kani::proof]
#[kani::unwind(3)]
fn c12_delta_chunks_tick_domain() {
    // arbitrary i32 tick / base tick: what the chunker sends is undone by the receiver's
    // wrapping subtraction
    let tick: i32 = kani::any();
    let base: i32 = kani::any();
    let data = [7u8; 1];
    let mut it = delta_chunks(tick, base, &data, 3);
    match it.next() {
        Some(SnapMsg::SnapSingle(s)) => {
            let mut r = DeltaReceiver::new();
            let mut w = WCnt { duplicate: 0, differing: 0 };
            match r.snap_single(&mut w, s) {
                Ok(Some(d)) => assert!(d.tick == tick && d.delta_tick == base),
                _ => assert!(false),
            }
            core::mem::forget(r);
        }
        _ => assert!(false),
    }
}

fn msg<'a>(tick: i32, rel: i32, num_parts: i32, part: i32, crc: i32, data: &'a [u8]) -> msg::Snap<'a> {
    msg::Snap { tick: tick, delta_tick: rel, num_parts: num_parts, part: part, crc: crc, data: data }
}

/// deliver the parts of one transfer of NP one-byte parts in the order given by `order`
/// (entries >= NP are skipped); `order` may contain duplicates
fn receiver_order<const NP: usize>(tick: i32, order: [usize; 4]) {
    let rel: i32 = kani::any();
    let crc: i32 = kani::any();
    let bytes: [u8; NP] = kani::any();
    let mut r = DeltaReceiver::new();
    let mut w = WCnt { duplicate: 0, differing: 0 };
    let mut seen = [false; NP];
    let mut nseen = 0;
    let mut completed = 0;
    let mut i = 0;
    while i < 4 {
        let p = order[i];
        if p < NP {
            let res = r.snap(&mut w, msg(tick, rel, NP as i32, p as i32, crc, &bytes[p..p + 1]));
            if completed > 0 {
                // after completion further parts of that tick are refused
                assert!(matches!(res, Err(Error::OldDelta)));
            } else if seen[p] {
                assert!(matches!(res, Err(Error::DuplicatePart)));
            } else {
                seen[p] = true;
                nseen += 1;
                match res {
                    Ok(Some(d)) => {
                        assert!(nseen == NP);
                        completed += 1;
                        // original tick, absolute base tick and checksum
                        assert!(d.tick == tick);
                        assert!(d.delta_tick == tick.wrapping_sub(rel));
                        let (data, c) = d.data_and_crc.unwrap();
                        assert!(c == crc);
                        // concatenation in part order
                        assert!(data.len() == NP);
                        let mut k = 0;
                        while k < NP {
                            assert!(data[k] == bytes[k]);
                            k += 1;
                        }
                    }
                    Ok(None) => assert!(nseen < NP),
                    Err(_) => assert!(false),
                }
            }
        }
        i += 1;
    }
    // a consistent transfer raises no warning
    assert!(w.differing == 0 && w.duplicate == 0);
    kani::cover!(completed == 1);
    core::mem::forget(r);
}

#[kani::proof]
#[kani::unwind(6)]
fn c12_receiver_2parts_in_order() {
    receiver_order::<2>(10, [0, 1, 9, 9]);
}
#[kani::proof]
#[kani::unwind(6)]
fn c12_receiver_2parts_reversed_dup() {
    receiver_order::<2>(10, [1, 1, 0, 0]);
}
#[kani::proof]
#[kani::unwind(6)]
fn c12_receiver_3parts_201() {
    receiver_order::<3>(2, [2, 0, 1, 1]);
}
#[kani::proof]
#[kani::unwind(6)]
fn c12_receiver_3parts_120_dup() {
    receiver_order::<3>(i32::MAX, [1, 2, 2, 0]);
}
#[kani::proof]
#[kani::unwind(6)]
fn c12_receiver_3parts_012_tick0() {
    receiver_order::<3>(0, [0, 1, 2, 0]);
}

#[kani::proof]
#[kani::unwind(6)]
fn c12_receiver_older_tick_is_inert() {
    // a message of an older tick in the middle of a transfer never completes, overwrites or corrupts
    let rel: i32 = kani::any();
    let crc: i32 = kani::any();
    let bytes: [u8; 2] = kani::any();
    let old: [u8; 1] = kani::any();
    let mut r = DeltaReceiver::new();
    let mut w = WCnt { duplicate: 0, differing: 0 };
    assert!(matches!(r.snap(&mut w, msg(10, rel, 2, 0, crc, &bytes[0..1])), Ok(None)));
    let res_old = r.snap(&mut w, msg(9, kani::any(), 2, 1, kani::any(), &old));
    assert!(matches!(res_old, Err(Error::OldDelta)));
    let res_old1 = r.snap_single(&mut w, msg::SnapSingle { tick: 9, delta_tick: kani::any(), crc: kani::any(), data: &old });
    assert!(matches!(res_old1, Err(Error::OldDelta)));
    let res_old2 = r.snap_empty(&mut w, msg::SnapEmpty { tick: 9, delta_tick: kani::any() });
    assert!(matches!(res_old2, Err(Error::OldDelta)));
    match r.snap(&mut w, msg(10, rel, 2, 1, crc, &bytes[1..2])) {
        Ok(Some(d)) => {
            let (data, c) = d.data_and_crc.unwrap();
            assert!(c == crc && d.tick == 10 && d.delta_tick == 10i32.wrapping_sub(rel));
            assert!(data.len() == 2 && data[0] == bytes[0] && data[1] == bytes[1]);
        }
        _ => assert!(false),
    }
    assert!(w.differing == 0 && w.duplicate == 0);
    core::mem::forget(r);
}

#[kani::proof]
#[kani::unwind(6)]
fn c12_receiver_newer_tick_restarts() {
    // a part of a newer tick abandons the transfer in progress; the old tick can no longer complete
    let bytes: [u8; 2] = kani::any();
    let nb: [u8; 2] = kani::any();
    let mut r = DeltaReceiver::new();
    let mut w = WCnt { duplicate: 0, differing: 0 };
    assert!(matches!(r.snap(&mut w, msg(10, 1, 2, 0, 5, &bytes[0..1])), Ok(None)));
    assert!(matches!(r.snap(&mut w, msg(12, 3, 2, 1, 6, &nb[1..2])), Ok(None)));
    assert!(matches!(r.snap(&mut w, msg(10, 1, 2, 1, 5, &bytes[1..2])), Err(Error::OldDelta)));
    match r.snap(&mut w, msg(12, 3, 2, 0, 6, &nb[0..1])) {
        Ok(Some(d)) => {
            let (data, c) = d.data_and_crc.unwrap();
            assert!(c == 6 && d.tick == 12 && d.delta_tick == 9);
            assert!(data.len() == 2 && data[0] == nb[0] && data[1] == nb[1]);
        }
        _ => assert!(false),
    }
    assert!(w.differing == 0);
    core::mem::forget(r);
}

#[kani::proof]
#[kani::unwind(6)]
fn c12_receiver_single_and_empty() {
    let tick: i32 = kani::any();
    let rel: i32 = kani::any();
    let crc: i32 = kani::any();
    let b: [u8; 2] = kani::any();
    let mut r = DeltaReceiver::new();
    let mut w = WCnt { duplicate: 0, differing: 0 };
    match r.snap_single(&mut w, msg::SnapSingle { tick: tick, delta_tick: rel, crc: crc, data: &b }) {
        Ok(Some(d)) => {
            let (data, c) = d.data_and_crc.unwrap();
            assert!(d.tick == tick && d.delta_tick == tick.wrapping_sub(rel) && c == crc);
            assert!(data.len() == 2 && data[0] == b[0] && data[1] == b[1]);
        }
        _ => assert!(false),
    }
    // exactly once: the same tick again is refused
    assert!(matches!(r.snap_single(&mut w, msg::SnapSingle { tick: tick, delta_tick: rel, crc: crc, data: &b }), Err(Error::OldDelta)));
    assert!(matches!(r.snap_empty(&mut w, msg::SnapEmpty { tick: tick, delta_tick: rel }), Err(Error::OldDelta)));
    if tick < i32::MAX {
        match r.snap_empty(&mut w, msg::SnapEmpty { tick: tick + 1, delta_tick: rel }) {
            Ok(Some(d)) => assert!(d.tick == tick + 1 && d.delta_tick == (tick + 1).wrapping_sub(rel) && d.data_and_crc.is_none()),
            _ => assert!(false),
        }
    }
    assert!(w.differing == 0 && w.duplicate == 0);
    core::mem::forget(r);
}

#[kani::proof]
#[kani::unwind(6)]
fn c12_receiver_rejects_bad_part_numbers() {
    // part counts / part numbers on both sides of their limits (concrete boundary values: a symbolic
    // part count would size the part map), everything else symbolic
    let b: [u8; 1] = kani::any();
    let bad_counts = [-1, 33, i32::MIN, i32::MAX];
    let mut i = 0;
    while i < 4 {
        let mut r = DeltaReceiver::new();
        let mut w = WCnt { duplicate: 0, differing: 0 };
        let res = r.snap(&mut w, msg(kani::any(), kani::any(), bad_counts[i], kani::any(), kani::any(), &b));
        assert!(matches!(res, Err(Error::InvalidNumParts)));
        core::mem::forget(r);
        i += 1;
    }
    let bad_parts = [-1, 2, i32::MIN, i32::MAX];
    let mut i = 0;
    while i < 4 {
        let mut r = DeltaReceiver::new();
        let mut w = WCnt { duplicate: 0, differing: 0 };
        let res = r.snap(&mut w, msg(kani::any(), kani::any(), 2, bad_parts[i], kani::any(), &b));
        assert!(matches!(res, Err(Error::InvalidPart)));
        core::mem::forget(r);
        i += 1;
    }
    // zero parts: every part number is invalid
    let mut r = DeltaReceiver::new();
    let mut w = WCnt { duplicate: 0, differing: 0 };
    assert!(matches!(r.snap(&mut w, msg(kani::any(), kani::any(), 0, 0, kani::any(), &b)), Err(Error::InvalidPart)));
    core::mem::forget(r);
}
