// C16 harnesses for the map layer, include!()-ed into map/src/reader.rs under cfg(kani).
// Real code driven: get_index_impl, get_index, get_index_opt, Image::from_raw (+ the
// MapItemImageV1 view over symbolic item words). Every index a map item stores (image data and
// name, layer data, group layers ...) goes through get_index/get_index_opt before it is used to
// address a datafile block; the accessors of the datafile layer panic on an index outside the
// table (slice indexing), so "never panics" rests on: a returned index lies inside the range it
// was checked against.

#[kani::proof]
#[kani::unwind(3)]
fn c16_map_get_index_in_range() {
    let index: i32 = kani::any();
    let start: usize = kani::any();
    let end: usize = kani::any();
    kani::assume(start <= end && end <= (1 << 24));
    match get_index_impl(index, start..end) {
        Some(i) => {
            assert!(index >= 0);
            assert!(start <= i && i < end);
            assert!(i == start + index as usize);
        }
        None => assert!(index < 0 || start + index as usize >= end),
    }
    let r: Result<usize, i32> = get_index(index, start..end, |i| i);
    match r {
        Ok(i) => assert!(start <= i && i < end),
        Err(e) => assert!(e == index),
    }
    let r: Result<Option<usize>, i32> = get_index_opt(index, start..end, |i| i);
    match r {
        Ok(Some(i)) => assert!(start <= i && i < end),
        Ok(None) => assert!(index == -1),
        Err(e) => assert!(e == index && index != -1),
    }
    kani::cover!(index >= 0 && end > 0 && start + index as usize == end - 1, "last valid index");
    kani::cover!(index >= 0 && start + index as usize == end, "one past the end");
}

#[kani::proof]
#[kani::unwind(8)]
fn c16_map_image_from_raw_total() {
    // an image item of symbolic words (length 0..=7) against a symbolic data-block range: a value or
    // an error, never a panic; the data and name block indices it returns address existing blocks
    let words: [i32; 7] = kani::any();
    let len: usize = kani::any();
    kani::assume(len <= 7);
    let start: usize = kani::any();
    let end: usize = kani::any();
    kani::assume(start <= end && end <= (1 << 24));
    match Image::from_raw(&words[..len], start..end) {
        Ok(img) => {
            assert!(start <= img.name && img.name < end);
            if let Some(d) = img.data {
                assert!(start <= d && d < end);
            }
            kani::cover!(img.data.is_some(), "embedded image accepted");
            kani::cover!(img.data.is_none(), "external image accepted");
        }
        Err(_) => {
            kani::cover!(true, "rejected");
        }
    }
}
