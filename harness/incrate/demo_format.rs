// C15 harnesses (header level), include!()-ed into demo/src/format.rs under cfg(kani).
// Real code driven: ChunkHeader::{read, write}, TickMarker::new, Version::max_tick_delta, binrw's
// primitive readers/writers over an infallible in-memory stand-in.

/// in-memory Read + Write + Seek that never fails: reads past the end yield zeros and set `overrun`
pub struct Mem {
    pub buf: [u8; 8],
    pub pos: usize,
    pub len: usize,
    pub overrun: bool,
}
impl Mem {
    pub fn new() -> Mem {
        Mem { buf: [0; 8], pos: 0, len: 0, overrun: false }
    }
}
impl io::Write for Mem {
    fn write(&mut self, data: &[u8]) -> io::Result<usize> {
        let mut i = 0;
        while i < data.len() {
            if self.pos < 8 {
                self.buf[self.pos] = data[i];
            } else {
                self.overrun = true;
            }
            self.pos += 1;
            i += 1;
        }
        if self.pos > self.len {
            self.len = self.pos;
        }
        Ok(data.len())
    }
    fn flush(&mut self) -> io::Result<()> {
        Ok(())
    }
}
impl io::Read for Mem {
    fn read(&mut self, out: &mut [u8]) -> io::Result<usize> {
        let mut i = 0;
        while i < out.len() {
            if self.pos < self.len && self.pos < 8 {
                out[i] = self.buf[self.pos];
            } else {
                out[i] = 0;
                self.overrun = true;
            }
            self.pos += 1;
            i += 1;
        }
        Ok(out.len())
    }
}
impl io::Seek for Mem {
    fn seek(&mut self, to: io::SeekFrom) -> io::Result<u64> {
        match to {
            io::SeekFrom::Start(p) => self.pos = p as usize,
            io::SeekFrom::Current(d) => self.pos = (self.pos as i64 + d) as usize,
            io::SeekFrom::End(d) => self.pos = (self.len as i64 + d) as usize,
        }
        Ok(self.pos as u64)
    }
}

pub struct WCount(pub u32);
impl Warn<Warning> for WCount {
    fn warn(&mut self, _: Warning) {
        self.0 += 1;
    }
}

#[kani::proof]
#[kani::unwind(6)]
fn c15_chunk_header_data_roundtrip() {
    // every size 0..=65535 x every data kind: identical value, zero warnings, exactly the written
    // bytes consumed (covers the 29/30 and 255/256 size-encoding boundaries)
    let size: u16 = kani::any();
    let k: u8 = kani::any();
    kani::assume(k < 3);
    let kind = match k {
        0 => DataKind::Snapshot,
        1 => DataKind::Message,
        _ => DataKind::SnapshotDelta,
    };
    let mut m = Mem::new();
    let h = ChunkHeader::Data { kind: kind, size: size };
    assert!(h.write(&mut m, Version::V5).is_ok());
    let written = m.pos;
    assert!(written == if size < 30 { 1 } else if size <= 255 { 2 } else { 3 });
    m.pos = 0;
    let mut w = WCount(0);
    match ChunkHeader::read(&mut m, Version::V5, &mut w) {
        Ok(Some(ChunkHeader::Data { kind: k2, size: s2 })) => {
            assert!(k2 == kind && s2 == size);
        }
        _ => assert!(false),
    }
    assert!(w.0 == 0);
    assert!(m.pos == written && !m.overrun);
    kani::cover!(size == 29);
    kani::cover!(size == 30);
    kani::cover!(size == 255);
    kani::cover!(size == 256);
    kani::cover!(size == 65535);
}

#[kani::proof]
#[kani::unwind(6)]
fn c15_chunk_header_tick_roundtrip() {
    // every tick marker the writer can be given: Delta(0..=31) non-keyframe, Absolute(any i32) with
    // and without the keyframe flag
    let absolute: bool = kani::any();
    let keyframe: bool = kani::any();
    let dt: u8 = kani::any();
    let t: i32 = kani::any();
    let marker = if absolute {
        TickMarker::Absolute(t)
    } else {
        // writer preconditions (assert!): delta <= max_tick_delta, not a keyframe
        kani::assume(dt <= 31 && !keyframe);
        TickMarker::Delta(dt)
    };
    let mut m = Mem::new();
    let h = ChunkHeader::Tick { marker: marker, keyframe: keyframe };
    assert!(h.write(&mut m, Version::V5).is_ok());
    let written = m.pos;
    assert!(written == if absolute { 5 } else { 1 });
    m.pos = 0;
    let mut w = WCount(0);
    match ChunkHeader::read(&mut m, Version::V5, &mut w) {
        Ok(Some(ChunkHeader::Tick { marker: m2, keyframe: k2 })) => {
            assert!(k2 == keyframe);
            match (marker, m2) {
                (TickMarker::Absolute(a), TickMarker::Absolute(b)) => assert!(a == b),
                (TickMarker::Delta(a), TickMarker::Delta(b)) => assert!(a == b),
                _ => assert!(false),
            }
        }
        _ => assert!(false),
    }
    assert!(w.0 == 0);
    assert!(m.pos == written && !m.overrun);
    kani::cover!(!absolute && dt == 31);
    kani::cover!(absolute && keyframe && t == i32::MIN);
}

#[kani::proof]
#[kani::unwind(3)]
fn c15_tick_marker_new() {
    // all (tick, prev, keyframe) with prev < tick: inline delta iff not a keyframe and the gap is at
    // most 31; no overflow for gaps beyond i32 range; the reader's accumulation restores the tick
    let tick: i32 = kani::any();
    let prev: Option<i32> = kani::any();
    let keyframe: bool = kani::any();
    if let Some(p) = prev {
        kani::assume(p < tick);
    }
    let tm = TickMarker::new(tick, prev, keyframe, Version::V5);
    match tm {
        TickMarker::Delta(d) => {
            let p = prev.unwrap();
            assert!(!keyframe);
            assert!(d >= 1 && d <= 31);
            assert!(p as i64 + d as i64 == tick as i64);
        }
        TickMarker::Absolute(t) => {
            assert!(t == tick);
            if let Some(p) = prev {
                assert!(keyframe || (tick as i64 - p as i64) > 31);
            }
        }
    }
    kani::cover!(matches!(tm, TickMarker::Delta(31)));
    kani::cover!(matches!(tm, TickMarker::Absolute(_)) && !keyframe && prev.is_some());
}

#[kani::proof]
#[kani::unwind(6)]
fn c15_chunk_header_read_total() {
    // any 5 bytes as a chunk header, versions V3 and V5: a value or (never here) an error, no panic
    let bytes: [u8; 5] = kani::any();
    let v5: bool = kani::any();
    let mut m = Mem::new();
    let mut i = 0;
    while i < 5 {
        m.buf[i] = bytes[i];
        i += 1;
    }
    m.len = 5;
    let mut w = WCount(0);
    let r = ChunkHeader::read(&mut m, if v5 { Version::V5 } else { Version::V3 }, &mut w);
    assert!(r.is_ok());
    assert!(m.pos <= 5 && !m.overrun);
}
