// C05 / C06 (and reader_reports_token of C03) harnesses for the 0.7 packet codec,
// include!()-ed into net/src/protocol7.rs under cfg(kani).

use libtw2_huffman::Huffman as VHuffman;

pub struct WMask(pub u32);
impl Warn<Warning> for WMask {
    fn warn(&mut self, w: Warning) {
        self.0 |= 1 << (w as u32);
    }
}
impl WMask {
    pub fn has(&self, w: Warning) -> bool {
        self.0 & (1 << (w as u32)) != 0
    }
}

fn v_eq(a: &[u8], b: &[u8]) -> bool {
    if a.len() != b.len() {
        return false;
    }
    let mut i = 0;
    while i < a.len() {
        if a[i] != b[i] {
            return false;
        }
        i += 1;
    }
    true
}

#[kani::proof]
#[kani::unwind(9)]
fn c05_hdr07_packet_all_patterns() {
    // all 2^24 patterns of the three packed bytes x every token
    let x: [u8; 7] = kani::any();
    let mut w = WMask(0);
    let h = PacketHeaderPacked::from_array(x).unpack_warn(&mut w);
    assert!(h.flags >> PACKET_FLAGS_BITS == 0 && h.ack >> SEQUENCE_BITS == 0);
    let y = h.pack();
    let yb = y.as_bytes();
    let mut yy = [0u8; 7];
    let mut i = 0;
    while i < 7 {
        yy[i] = yb[i];
        i += 1;
    }
    let mut w2 = WMask(0);
    assert!(PacketHeaderPacked::from_array(yy).unpack_warn(&mut w2) == h && w2.0 == 0);
    let mut canonical = true;
    let mut i = 0;
    while i < 7 {
        if yy[i] != x[i] {
            canonical = false;
        }
        i += 1;
    }
    assert!((w.0 == 0) == canonical);
    kani::cover!(w.0 != 0);
    kani::cover!(canonical && h.ack == 1023 && h.flags == 15);
}

#[kani::proof]
#[kani::unwind(11)]
fn c05_hdr07_connless_all_patterns() {
    let x: [u8; 9] = kani::any();
    let mut w = WMask(0);
    let h = PacketHeaderConnlessPacked::from_array(x).unpack_warn(&mut w);
    assert!(h.flags >> PACKET_FLAGS_BITS == 0 && h.version >> VERSION_BITS == 0);
    let y = h.pack();
    let yb = y.as_bytes();
    let mut canonical = true;
    let mut i = 0;
    while i < 9 {
        if yb[i] != x[i] {
            canonical = false;
        }
        i += 1;
    }
    assert!((w.0 == 0) == canonical);
    let mut w2 = WMask(0);
    assert!(y.unpack_warn(&mut w2) == h && w2.0 == 0);
}

#[kani::proof]
#[kani::unwind(5)]
fn c05_hdr07_all_fields() {
    let h = PacketHeader { flags: kani::any(), ack: kani::any(), num_chunks: kani::any(), token: Token(kani::any()) };
    kani::assume(h.flags >> PACKET_FLAGS_BITS == 0 && h.ack >> SEQUENCE_BITS == 0);
    let mut w = WMask(0);
    assert!(h.pack().unpack_warn(&mut w) == h && w.0 == 0);
    let c = PacketHeaderConnless { flags: kani::any(), version: kani::any(), token: Token(kani::any()), response_token: Token(kani::any()) };
    kani::assume(c.flags >> PACKET_FLAGS_BITS == 0 && c.version >> VERSION_BITS == 0);
    let mut w = WMask(0);
    assert!(c.pack().unpack_warn(&mut w) == c && w.0 == 0);
}

#[kani::proof]
#[kani::unwind(5)]
fn c05_hdr07_chunk_all_patterns() {
    let x: [u8; 3] = kani::any();
    let mut w = WMask(0);
    let h = ChunkHeaderPacked::from_array([x[0], x[1]]).unpack_warn(&mut w);
    assert!(h.flags >> CHUNK_FLAGS_BITS == 0 && h.size >> CHUNK_SIZE_BITS == 0);
    let y = h.pack();
    let yb = y.as_bytes();
    let canonical = yb[0] == x[0] && yb[1] == x[1];
    assert!((w.0 == 0) == canonical);
    let mut w2 = WMask(0);
    assert!(ChunkHeaderPacked::from_array([yb[0], yb[1]]).unpack_warn(&mut w2) == h && w2.0 == 0);
    let mut w = WMask(0);
    let hv = ChunkHeaderVitalPacked::from_array(x).unpack_warn(&mut w);
    assert!(hv.h.flags >> CHUNK_FLAGS_BITS == 0 && hv.h.size >> CHUNK_SIZE_BITS == 0);
    assert!(hv.sequence >> SEQUENCE_BITS == 0);
    let y = hv.pack();
    let yb = y.as_bytes();
    let mut w2 = WMask(0);
    assert!(ChunkHeaderVitalPacked::from_array([yb[0], yb[1], yb[2]]).unpack_warn(&mut w2) == hv && w2.0 == 0);
    let canonical = yb[0] == x[0] && yb[1] == x[1] && yb[2] == x[2];
    assert!((w.0 == 0) == canonical);
    kani::cover!(canonical && hv.sequence == 1023 && hv.h.size == 4095);
}

#[kani::proof]
#[kani::unwind(5)]
fn c05_hdr07_chunk_all_fields() {
    let h = ChunkHeader { flags: kani::any(), size: kani::any() };
    kani::assume(h.flags >> CHUNK_FLAGS_BITS == 0 && h.size >> CHUNK_SIZE_BITS == 0);
    let mut w = WMask(0);
    assert!(h.pack().unpack_warn(&mut w) == h && w.0 == 0);
    let hv = ChunkHeaderVital { h: h, sequence: kani::any() };
    kani::assume(hv.sequence >> SEQUENCE_BITS == 0);
    let mut w = WMask(0);
    assert!(hv.pack().unpack_warn(&mut w) == hv && w.0 == 0);
}

fn rt_check_connected(p: &ConnectedPacket, out: &[u8], scratch: &mut [u8; MAX_PACKETSIZE]) {
    rt_check_connected_opt(p, out, Some(scratch))
}

fn rt_check_connected_opt(p: &ConnectedPacket, out: &[u8], scratch: Option<&mut [u8; MAX_PACKETSIZE]>) {
    let mut w = WMask(0);
    let r = match scratch {
        Some(s) => Packet::read(&mut w, out, &mut s[..]),
        // control packets are never compressed by the writer: read without a scratch buffer
        None => Packet::read_panic_on_decompression(&mut w, out),
    };
    match r {
        Ok(Packet::Connected(q)) => {
            assert!(q.ack == p.ack);
            assert!(q.token == p.token);
            match (p.type_, q.type_) {
                (ConnectedPacketType::Chunks(a1, n1, d1), ConnectedPacketType::Chunks(a2, n2, d2)) => {
                    assert!(a1 == a2 && n1 == n2);
                    assert!(v_eq(d1, d2));
                    let allowed = if n1 == 0 && !a1 { 1u32 << (Warning::ChunksNoChunks as u32) } else { 0 };
                    assert!(w.0 & !allowed == 0);
                }
                (ConnectedPacketType::Control(c1), ConnectedPacketType::Control(c2)) => {
                    assert!(w.0 == 0);
                    match (c1, c2) {
                        (ControlPacket::KeepAlive, ControlPacket::KeepAlive) => {}
                        (ControlPacket::Connect(t1), ControlPacket::Connect(t2)) => assert!(t1 == t2),
                        (ControlPacket::Accept, ControlPacket::Accept) => {}
                        (ControlPacket::Token(t1), ControlPacket::Token(t2)) => assert!(t1 == t2),
                        (ControlPacket::Close(r1), ControlPacket::Close(r2)) => assert!(v_eq(r1, r2)),
                        _ => assert!(false),
                    }
                }
                _ => assert!(false),
            }
        }
        _ => assert!(false),
    }
}

fn rt_control(kind: u8) {
    // KeepAlive, Connect(rt), Accept, Token(rt) with an agreed (non-NONE) packet token
    let rt = Token(kani::any());
    // documented writer precondition (assert!): response token != TOKEN_NONE
    kani::assume(rt != TOKEN_NONE);
    let c = match kind {
        0 => ControlPacket::KeepAlive,
        1 => ControlPacket::Connect(rt),
        2 => ControlPacket::Accept,
        _ => ControlPacket::Token(rt),
    };
    let token = Token(kani::any());
    if kind == 3 {
        // a Token message under TOKEN_NONE is the padded token request: separate harness
        kani::assume(token != TOKEN_NONE);
    }
    let p = ConnectedPacket { ack: kani::any(), token: token, type_: ConnectedPacketType::Control(c) };
    kani::assume(p.ack >> SEQUENCE_BITS == 0);
    let mut out = [0u8; 16];
    let bytes = p.write(&mut out[..]).unwrap();
    rt_check_connected_opt(&p, bytes, None);
}
#[kani::proof]
#[kani::unwind(14)]
fn c05_rt07_control_keepalive() {
    rt_control(0);
}
#[kani::proof]
#[kani::unwind(14)]
fn c05_rt07_control_connect() {
    rt_control(1);
}
#[kani::proof]
#[kani::unwind(14)]
fn c05_rt07_control_accept() {
    rt_control(2);
}
#[kani::proof]
#[kani::unwind(14)]
fn c05_rt07_control_token() {
    rt_control(3);
}

#[kani::proof]
#[kani::unwind(6)]
fn c05_rt07_token_request() {
    // the unauthenticated token request (packet token NONE) is padded to 519 bytes and read back
    let rt = Token(kani::any());
    kani::assume(rt != TOKEN_NONE);
    let p = ConnectedPacket { ack: kani::any(), token: TOKEN_NONE, type_: ConnectedPacketType::Control(ControlPacket::Token(rt)) };
    kani::assume(p.ack >> SEQUENCE_BITS == 0);
    let mut out = [0u8; 600];
    let bytes = p.write(&mut out[..]).unwrap();
    assert!(bytes.len() == TOKEN_REQUEST_PACKET_SIZE);
    let mut w = WMask(0);
    match Packet::read_panic_on_decompression(&mut w, bytes) {
        Ok(Packet::Connected(q)) => {
            assert!(q.token == TOKEN_NONE && q.ack == p.ack);
            match q.type_ {
                ConnectedPacketType::Control(ControlPacket::Token(t)) => assert!(t == rt),
                _ => assert!(false),
            }
            assert!(w.0 == 0);
        }
        _ => assert!(false),
    }
}

fn nul_free(s: &[u8]) -> bool {
    let mut i = 0;
    while i < s.len() {
        if s[i] == 0 {
            return false;
        }
        i += 1;
    }
    true
}

fn rt_close<const L: usize>() {
    let reason: [u8; L] = kani::any();
    kani::assume(nul_free(&reason));
    let p = ConnectedPacket { ack: kani::any(), token: Token(kani::any()), type_: ConnectedPacketType::Control(ControlPacket::Close(&reason)) };
    kani::assume(p.ack >> SEQUENCE_BITS == 0);
    let mut out = [0u8; 24];
    let bytes = p.write(&mut out[..]).unwrap();
    assert!(bytes.len() == HEADER_SIZE + 1 + L + 1);
    rt_check_connected_opt(&p, bytes, None);
}
#[kani::proof]
#[kani::unwind(12)]
fn c05_rt07_close_len0() {
    rt_close::<0>();
}
#[kani::proof]
#[kani::unwind(12)]
fn c05_rt07_close_len3() {
    rt_close::<3>();
}

fn rt_chunks<const L: usize>() {
    let payload: [u8; L] = kani::any();
    let p = ConnectedPacket { ack: kani::any(), token: Token(kani::any()), type_: ConnectedPacketType::Chunks(kani::any(), kani::any(), &payload) };
    kani::assume(p.ack >> SEQUENCE_BITS == 0);
    let mut out = [0u8; 24];
    let mut scratch = [0u8; MAX_PACKETSIZE];
    let bytes = p.write(&mut out[..]).unwrap();
    let compressed = bytes[0] & (PACKETFLAG_COMPRESSION << 2) != 0;
    if compressed {
        assert!(bytes.len() < HEADER_SIZE + L);
    } else {
        assert!(bytes.len() == HEADER_SIZE + L);
    }
    rt_check_connected(&p, bytes, &mut scratch);
    kani::cover!(compressed || L < 2);
    kani::cover!(!compressed);
}
#[kani::proof]
#[kani::unwind(12)]
#[kani::stub(libtw2_huffman::Huffman::compress_impl_unsafe, libtw2_huffman::Huffman::verif_compress_oracle)]
#[kani::stub(libtw2_huffman::Huffman::decompress_unsafe, libtw2_huffman::Huffman::verif_decompress_oracle)]
fn c05_rt07_chunks_len0() {
    rt_chunks::<0>();
}
#[kani::proof]
#[kani::unwind(12)]
#[kani::stub(libtw2_huffman::Huffman::compress_impl_unsafe, libtw2_huffman::Huffman::verif_compress_oracle)]
#[kani::stub(libtw2_huffman::Huffman::decompress_unsafe, libtw2_huffman::Huffman::verif_decompress_oracle)]
fn c05_rt07_chunks_len2() {
    rt_chunks::<2>();
}
#[kani::proof]
#[kani::unwind(12)]
#[kani::stub(libtw2_huffman::Huffman::compress_impl_unsafe, libtw2_huffman::Huffman::verif_compress_oracle)]
#[kani::stub(libtw2_huffman::Huffman::decompress_unsafe, libtw2_huffman::Huffman::verif_decompress_oracle)]
fn c05_rt07_chunks_len4() {
    rt_chunks::<4>();
}

fn rt_connless<const L: usize>() {
    let payload: [u8; L] = kani::any();
    let cp = ConnlessPacket { payload: &payload, token: Token(kani::any()), response_token: Token(kani::any()) };
    let p = Packet::Connless(cp);
    let mut out = [0u8; 16];
    let bytes = p.write(&mut out[..]).unwrap();
    assert!(bytes.len() == HEADER_SIZE_CONNLESS + L);
    let mut w = WMask(0);
    match Packet::read_panic_on_decompression(&mut w, bytes) {
        Ok(Packet::Connless(q)) => {
            assert!(v_eq(q.payload, &payload) && q.token == cp.token && q.response_token == cp.response_token && w.0 == 0)
        }
        _ => assert!(false),
    }
}
#[kani::proof]
#[kani::unwind(12)]
fn c05_rt07_connless_len0() {
    rt_connless::<0>();
}
#[kani::proof]
#[kani::unwind(12)]
fn c05_rt07_connless_len4() {
    rt_connless::<4>();
}

// ---------------------------------------------------------------------------------------------
// C06

fn touch(s: &[u8]) -> u32 {
    let mut acc = 0u32;
    let mut i = 0;
    while i < s.len() {
        acc = acc.wrapping_add(s[i] as u32);
        i += 1;
    }
    acc
}

fn inside(s: &[u8], outer: &[u8]) -> bool {
    let a = s.as_ptr() as usize;
    let b = outer.as_ptr() as usize;
    a >= b && a + s.len() <= b + outer.len()
}

fn read_total<const N: usize>(connless: bool) {
    let data: [u8; N] = kani::any();
    let len: usize = kani::any();
    kani::assume(len <= N);
    let input = &data[..len];
    if len >= 1 {
        // uncompressed class
        kani::assume(data[0] & (PACKETFLAG_COMPRESSION << 2) == 0 || data[0] & (PACKETFLAG_CONNLESS << 2) != 0);
        kani::assume((data[0] & (PACKETFLAG_CONNLESS << 2) != 0) == connless);
    }
    let mut w = WMask(0);
    let r = Packet::read_panic_on_decompression(&mut w, input);
    match &r {
        &Ok(Packet::Connless(c)) => {
            assert!(inside(c.payload, input));
            touch(c.payload);
            assert!(len >= HEADER_SIZE_CONNLESS);
            // token fields are the header bytes 1..5 and 5..9
            assert!(c.token.0[0] == input[1] && c.token.0[3] == input[4]);
            assert!(c.response_token.0[0] == input[5] && c.response_token.0[3] == input[8]);
        }
        &Ok(Packet::Connected(p)) => {
            assert!(p.ack >> SEQUENCE_BITS == 0);
            // the reported token is the one carried in header bytes 3..7
            assert!(p.token.0[0] == input[3] && p.token.0[1] == input[4] && p.token.0[2] == input[5] && p.token.0[3] == input[6]);
            match p.type_ {
                ConnectedPacketType::Chunks(_, _, d) => {
                    assert!(inside(d, input));
                    touch(d);
                }
                ConnectedPacketType::Control(ControlPacket::Close(reason)) => {
                    assert!(inside(reason, input));
                    assert!(reason.len() <= CTRLMSG_CLOSE_REASON_LENGTH);
                    assert!(nul_free(reason));
                }
                ConnectedPacketType::Control(_) => {}
            }
        }
        Err(e) => {
            assert!(*e != PacketReadError::TooLong);
        }
    }
    kani::cover!(r.is_ok());
    kani::cover!(r.is_err());
}

#[kani::proof]
#[kani::unwind(15)]
fn c06_read07_total_connected() {
    read_total::<12>(false);
}
#[kani::proof]
#[kani::unwind(15)]
fn c06_read07_total_connless() {
    read_total::<12>(true);
}

fn read_compressed<const N: usize>(forced: Option<usize>) {
    VHuffman::verif_oracle().forced_out_len = forced;
    let data: [u8; N] = kani::any();
    let len: usize = kani::any();
    kani::assume(HEADER_SIZE <= len && len <= N);
    kani::assume(data[0] & (PACKETFLAG_COMPRESSION << 2) != 0 && data[0] & (PACKETFLAG_CONNLESS << 2) == 0);
    let input = &data[..len];
    let mut scratch = [0u8; MAX_PACKETSIZE];
    let sp = scratch.as_ptr() as usize;
    let mut w = WMask(0);
    let r = Packet::read(&mut w, input, &mut scratch[..]);
    match r {
        Ok(Packet::Connless(_)) => assert!(false),
        Ok(Packet::Connected(p)) => match p.type_ {
            ConnectedPacketType::Chunks(_, _, d) => {
                let a = d.as_ptr() as usize;
                assert!(a >= sp && a + d.len() <= sp + MAX_PACKETSIZE);
                assert!(d.len() <= MAX_PACKETSIZE - HEADER_SIZE);
                if forced.is_none() {
                    touch(d);
                }
            }
            ConnectedPacketType::Control(ControlPacket::Close(reason)) => {
                let a = reason.as_ptr() as usize;
                assert!(a >= sp && a + reason.len() <= sp + MAX_PACKETSIZE);
            }
            ConnectedPacketType::Control(_) => {}
        },
        Err(_) => {}
    }
    if let Some(m) = forced {
        if m > MAX_PACKETSIZE - HEADER_SIZE {
            assert!(r.is_err());
        }
    }
    kani::cover!(r.is_ok() || forced.map(|m| m > MAX_PACKETSIZE - HEADER_SIZE).unwrap_or(false));
    kani::cover!(r.is_err());
}

#[kani::proof]
#[kani::unwind(20)]
#[kani::stub(libtw2_huffman::Huffman::decompress_unsafe, libtw2_huffman::Huffman::verif_decompress_oracle)]
fn c06_read07_compressed() {
    read_compressed::<9>(None);
}
#[kani::proof]
#[kani::unwind(9)]
#[kani::stub(libtw2_huffman::Huffman::decompress_unsafe, libtw2_huffman::Huffman::verif_decompress_oracle)]
fn c06_read07_compressed_expands_1393() {
    read_compressed::<8>(Some(MAX_PACKETSIZE - HEADER_SIZE));
}
#[kani::proof]
#[kani::unwind(9)]
#[kani::stub(libtw2_huffman::Huffman::decompress_unsafe, libtw2_huffman::Huffman::verif_decompress_oracle)]
fn c06_read07_compressed_expands_1394() {
    read_compressed::<8>(Some(MAX_PACKETSIZE - HEADER_SIZE + 1));
}

#[kani::proof]
#[kani::unwind(4)]
fn c06_read07_length_gate() {
    let data: [u8; 3000] = kani::any();
    let len: usize = kani::any();
    kani::assume(len > MAX_PACKETSIZE && len <= 3000);
    let mut w = WMask(0);
    let r = Packet::read_panic_on_decompression(&mut w, &data[..len]);
    assert!(matches!(r, Err(PacketReadError::TooLong)));
    assert!(w.0 == 0);
}

fn chunks_iter_total<const N: usize>() {
    let data: [u8; N] = kani::any();
    let len: usize = kani::any();
    kani::assume(len <= N);
    let num: u8 = kani::any();
    let area = &data[..len];
    let mut w = WMask(0);
    let mut it = ChunksIter::new(area, num);
    let mut k: usize = 0;
    let mut consumed: usize = 0;
    while let Some(c) = it.next_warn(&mut w) {
        assert!(inside(c.data, area));
        touch(c.data);
        let hdr = if c.vital.is_some() { CHUNK_HEADER_SIZE_VITAL } else { CHUNK_HEADER_SIZE };
        assert!(c.data.as_ptr() as usize == area.as_ptr() as usize + consumed + hdr);
        consumed += hdr + c.data.len();
        assert!(it.pos() == consumed);
        if let Some((seq, _)) = c.vital {
            assert!(seq >> SEQUENCE_BITS == 0);
        }
        k += 1;
        assert!(k <= N / 2);
    }
    assert!(it.next_warn(&mut w).is_none());
    if !w.has(Warning::ChunksUnknownData) {
        assert!(consumed == len);
        assert!(w.has(Warning::ChunksNumChunks) == (k != num as usize));
    }
    kani::cover!(k == N / 2);
    kani::cover!(w.0 == 0 && k == 2);
    kani::cover!(w.has(Warning::ChunksUnknownData));
}

#[kani::proof]
#[kani::unwind(6)]
fn c06_chunks_iter07_total() {
    chunks_iter_total::<7>();
}

fn reread<const N: usize>() {
    let data: [u8; N] = kani::any();
    let len: usize = kani::any();
    kani::assume(len <= N);
    if len >= 1 {
        kani::assume(data[0] & (PACKETFLAG_COMPRESSION << 2) == 0);
    }
    let input = &data[..len];
    let mut w = WMask(0);
    let r = Packet::read_panic_on_decompression(&mut w, input);
    if let Ok(p) = r {
        let mut out = [0u8; 24];
        let mut scratch = [0u8; MAX_PACKETSIZE];
        match p {
            Packet::Connless(c) => {
                let b = p.write(&mut out[..]).unwrap();
                let mut w2 = WMask(0);
                match Packet::read(&mut w2, b, &mut scratch[..]) {
                    Ok(Packet::Connless(c2)) => assert!(v_eq(c.payload, c2.payload) && c.token == c2.token && c.response_token == c2.response_token),
                    _ => assert!(false),
                }
            }
            Packet::Connected(cp) => {
                // the 519-byte token request cannot arise from <= N bytes (the reader demands its length)
                let b = cp.write(&mut out[..]).unwrap();
                rt_check_connected(&cp, b, &mut scratch);
            }
        }
        kani::cover!(true);
    }
}

#[kani::proof]
#[kani::unwind(15)]
#[kani::stub(libtw2_huffman::Huffman::compress_impl_unsafe, libtw2_huffman::Huffman::verif_compress_oracle)]
#[kani::stub(libtw2_huffman::Huffman::decompress_unsafe, libtw2_huffman::Huffman::verif_decompress_oracle)]
fn c06_reread07() {
    reread::<12>();
}

// Parser stand-in for the feed-level harnesses of the 0.7 connection layer (C03).
pub static mut VERIF_READ_KIND: u8 = 0;
pub static mut VERIF_READ_TOKEN: [u8; 4] = [0; 4];

impl<'a> Packet<'a> {
    pub fn verif_set_kind(k: u8) {
        unsafe {
            VERIF_READ_KIND = k;
        }
    }
    pub fn verif_last_token() -> [u8; 4] {
        unsafe { VERIF_READ_TOKEN }
    }
    pub fn verif_read_stub<'b, B, W>(_warn: &mut W, bytes: &'b [u8], _buffer: B) -> Result<Packet<'b>, PacketReadError>
    where
        B: Buffer<'b>,
        W: Warn<Warning>,
    {
        let t: [u8; 4] = kani::any();
        unsafe {
            VERIF_READ_TOKEN = t;
        }
        let ack: u16 = kani::any();
        kani::assume(ack < 1024);
        let rt = Token(kani::any());
        kani::assume(rt != TOKEN_NONE);
        let type_ = match unsafe { VERIF_READ_KIND } {
            0 => ConnectedPacketType::Control(ControlPacket::KeepAlive),
            1 => ConnectedPacketType::Control(ControlPacket::Close(bytes)),
            2 => ConnectedPacketType::Chunks(kani::any(), kani::any(), bytes),
            3 => ConnectedPacketType::Control(ControlPacket::Connect(rt)),
            4 => ConnectedPacketType::Control(ControlPacket::Token(rt)),
            _ => ConnectedPacketType::Control(ControlPacket::Accept),
        };
        Ok(Packet::Connected(ConnectedPacket { ack: ack, token: Token(t), type_: type_ }))
    }
}
