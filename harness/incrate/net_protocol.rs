// C05 / C06 (and reader_reports_token of C03) harnesses for the 0.6 packet codec,
// include!()-ed into net/src/protocol.rs under cfg(kani).

use libtw2_huffman::Huffman as VHuffman;

pub struct WMask(pub u32);
impl Warn<Warning> for WMask {
    fn warn(&mut self, w: Warning) {
        self.0 |= 1 << (w as u32);
    }
}
impl WMask {
    pub fn has(&self, w: Warning) -> bool {
        self.0 & (1 << (w as u32)) != 0
    }
}

fn v_eq(a: &[u8], b: &[u8]) -> bool {
    if a.len() != b.len() {
        return false;
    }
    let mut i = 0;
    while i < a.len() {
        if a[i] != b[i] {
            return false;
        }
        i += 1;
    }
    true
}

// ---------------------------------------------------------------------------------------------
// C05: headers, complete domains

#[kani::proof]
#[kani::unwind(5)]
fn c05_hdr06_packet_all_patterns() {
    // all 2^24 three-byte patterns
    let x: [u8; 3] = kani::any();
    let mut w = WMask(0);
    let h = PacketHeaderPacked::from_array(x).unpack_warn(&mut w);
    assert!(h.flags >> PACKET_FLAGS_BITS == 0 && h.ack >> SEQUENCE_BITS == 0);
    let y = h.pack();
    let yb = y.as_bytes();
    // re-packing is the canonical form: idempotent and warning-free
    let mut w2 = WMask(0);
    let h2 = PacketHeaderPacked::from_array([yb[0], yb[1], yb[2]]).unpack_warn(&mut w2);
    assert!(h2 == h && w2.0 == 0);
    let canonical = yb[0] == x[0] && yb[1] == x[1] && yb[2] == x[2];
    assert!(canonical == (x[0] & 0b0000_1100 == 0));
    // warning-free <=> canonical, except under the connless flag (whose header bytes are padding)
    if h.flags & PACKETFLAG_CONNLESS == 0 {
        assert!((w.0 == 0) == canonical);
    } else {
        assert!(w.0 == 0);
    }
    kani::cover!(w.0 != 0);
    kani::cover!(canonical && h.ack == 1023);
}

#[kani::proof]
#[kani::unwind(5)]
fn c05_hdr06_packet_all_fields() {
    let h = PacketHeader { flags: kani::any(), ack: kani::any(), num_chunks: kani::any() };
    kani::assume(h.flags >> PACKET_FLAGS_BITS == 0 && h.ack >> SEQUENCE_BITS == 0);
    let mut w = WMask(0);
    assert!(h.pack().unpack_warn(&mut w) == h);
    assert!(w.0 == 0);
}

#[kani::proof]
#[kani::unwind(5)]
fn c05_hdr06_chunk_all_patterns() {
    let x: [u8; 3] = kani::any();
    // non-vital view: two bytes
    let mut w = WMask(0);
    let h = ChunkHeaderPacked::from_array([x[0], x[1]]).unpack_warn(&mut w);
    assert!(h.flags >> CHUNK_FLAGS_BITS == 0 && h.size >> CHUNK_SIZE_BITS == 0);
    let y = h.pack();
    let yb = y.as_bytes();
    let canonical = yb[0] == x[0] && yb[1] == x[1];
    assert!((w.0 == 0) == canonical);
    let mut w2 = WMask(0);
    assert!(ChunkHeaderPacked::from_array([yb[0], yb[1]]).unpack_warn(&mut w2) == h && w2.0 == 0);
    // vital view: three bytes
    let mut w = WMask(0);
    let hv = ChunkHeaderVitalPacked::from_array(x).unpack_warn(&mut w);
    assert!(hv.h.flags >> CHUNK_FLAGS_BITS == 0 && hv.h.size >> CHUNK_SIZE_BITS == 0);
    assert!(hv.sequence >> SEQUENCE_BITS == 0);
    let y = hv.pack();
    let yb = y.as_bytes();
    let mut w2 = WMask(0);
    assert!(ChunkHeaderVitalPacked::from_array([yb[0], yb[1], yb[2]]).unpack_warn(&mut w2) == hv && w2.0 == 0);
    let canonical = yb[0] == x[0] && yb[1] == x[1] && yb[2] == x[2];
    assert!((w.0 == 0) == canonical);
    kani::cover!(w.has(Warning::ChunkHeaderSequence));
    kani::cover!(canonical && hv.sequence == 1023 && hv.h.size == 1023);
}

#[kani::proof]
#[kani::unwind(5)]
fn c05_hdr06_chunk_all_fields() {
    let h = ChunkHeader { flags: kani::any(), size: kani::any() };
    kani::assume(h.flags >> CHUNK_FLAGS_BITS == 0 && h.size >> CHUNK_SIZE_BITS == 0);
    let mut w = WMask(0);
    assert!(h.pack().unpack_warn(&mut w) == h && w.0 == 0);
    let hv = ChunkHeaderVital { h: h, sequence: kani::any() };
    kani::assume(hv.sequence >> SEQUENCE_BITS == 0);
    let mut w = WMask(0);
    assert!(hv.pack().unpack_warn(&mut w) == hv && w.0 == 0);
}

// ---------------------------------------------------------------------------------------------
// C05: packet values round-trip (codec oracle for Huffman)

fn any_token(present: bool) -> Option<Token> {
    if present {
        Some(Token(kani::any()))
    } else {
        None
    }
}

fn rt_check_connected(p: &ConnectedPacket, out: &[u8], hint: bool, scratch: &mut [u8; MAX_PACKETSIZE]) {
    rt_check_connected_opt(p, out, hint, Some(scratch))
}

fn rt_check_connected_opt(p: &ConnectedPacket, out: &[u8], hint: bool, scratch: Option<&mut [u8; MAX_PACKETSIZE]>) {
    let mut w = WMask(0);
    let r = match scratch {
        Some(s) => Packet::read(&mut w, out, Some(hint), &mut s[..]),
        // control packets are never compressed by the writer: read without a scratch buffer
        None => Packet::read_panic_on_decompression(&mut w, out, Some(hint)),
    };
    match r {
        Ok(Packet::Connected(q)) => {
            assert!(q.ack == p.ack);
            assert!(q.token == p.token);
            match (p.type_, q.type_) {
                (ConnectedPacketType::Chunks(a1, n1, d1), ConnectedPacketType::Chunks(a2, n2, d2)) => {
                    assert!(a1 == a2 && n1 == n2);
                    assert!(v_eq(d1, d2));
                    // no warnings from the packet layer (the chunk area is opaque to it), except
                    // the documented "no chunks and no resend request" notice
                    let allowed = if n1 == 0 && !a1 { 1u32 << (Warning::ChunksNoChunks as u32) } else { 0 };
                    assert!(w.0 & !allowed == 0);
                }
                (ConnectedPacketType::Control(c1), ConnectedPacketType::Control(c2)) => {
                    assert!(w.0 == 0);
                    match (c1, c2) {
                        (ControlPacket::KeepAlive, ControlPacket::KeepAlive) => {}
                        (ControlPacket::Connect, ControlPacket::Connect) => {}
                        (ControlPacket::ConnectAccept, ControlPacket::ConnectAccept) => {}
                        (ControlPacket::Accept, ControlPacket::Accept) => {}
                        (ControlPacket::Close(r1), ControlPacket::Close(r2)) => assert!(v_eq(r1, r2)),
                        _ => assert!(false),
                    }
                }
                _ => assert!(false),
            }
        }
        _ => assert!(false),
    }
}

#[kani::proof]
#[kani::unwind(8)]
#[kani::stub(libtw2_huffman::Huffman::compress_impl_unsafe, libtw2_huffman::Huffman::verif_compress_oracle)]
#[kani::stub(libtw2_huffman::Huffman::decompress_unsafe, libtw2_huffman::Huffman::verif_decompress_oracle)]
fn c05_rt06_control_token() {
    // every control message except Close, with token
    let kind: u8 = kani::any();
    kani::assume(kind < 4);
    let c = match kind {
        0 => ControlPacket::KeepAlive,
        1 => ControlPacket::Connect,
        2 => ControlPacket::ConnectAccept,
        _ => ControlPacket::Accept,
    };
    let p = ConnectedPacket { ack: kani::any(), token: any_token(true), type_: ConnectedPacketType::Control(c) };
    kani::assume(p.ack >> SEQUENCE_BITS == 0);
    let mut out = [0u8; 16];
    let bytes = p.write(&mut out[..]).unwrap();
    rt_check_connected_opt(&p, bytes, true, None);
    kani::cover!(kind == 1);
}

#[kani::proof]
#[kani::unwind(8)]
#[kani::stub(libtw2_huffman::Huffman::compress_impl_unsafe, libtw2_huffman::Huffman::verif_compress_oracle)]
#[kani::stub(libtw2_huffman::Huffman::decompress_unsafe, libtw2_huffman::Huffman::verif_decompress_oracle)]
fn c05_rt06_control_notoken() {
    let kind: u8 = kani::any();
    kani::assume(kind < 4);
    let c = match kind {
        0 => ControlPacket::KeepAlive,
        1 => ControlPacket::Connect,
        2 => ControlPacket::ConnectAccept,
        _ => ControlPacket::Accept,
    };
    let p = ConnectedPacket { ack: kani::any(), token: None, type_: ConnectedPacketType::Control(c) };
    kani::assume(p.ack >> SEQUENCE_BITS == 0);
    let mut out = [0u8; 16];
    let bytes = p.write(&mut out[..]).unwrap();
    rt_check_connected_opt(&p, bytes, false, None);
    kani::cover!(kind == 3);
}

fn nul_free(s: &[u8]) -> bool {
    let mut i = 0;
    while i < s.len() {
        if s[i] == 0 {
            return false;
        }
        i += 1;
    }
    true
}

fn rt_close<const L: usize, const TOKEN: bool>() {
    let reason: [u8; L] = kani::any();
    // documented precondition of the writer (assert!): NUL-free reason
    kani::assume(nul_free(&reason));
    let p = ConnectedPacket {
        ack: kani::any(),
        token: any_token(TOKEN),
        type_: ConnectedPacketType::Control(ControlPacket::Close(&reason)),
    };
    kani::assume(p.ack >> SEQUENCE_BITS == 0);
    let mut out = [0u8; 24];
    let bytes = p.write(&mut out[..]).unwrap();
    assert!(bytes.len() == HEADER_SIZE + 1 + L + 1 + if TOKEN { 4 } else { 0 });
    rt_check_connected_opt(&p, bytes, TOKEN, None);
}

#[kani::proof]
#[kani::unwind(8)]
fn c05_rt06_close_len0_token() {
    rt_close::<0, true>();
}
#[kani::proof]
#[kani::unwind(8)]
fn c05_rt06_close_len3_token() {
    rt_close::<3, true>();
}
#[kani::proof]
#[kani::unwind(8)]
fn c05_rt06_close_len0_notoken() {
    rt_close::<0, false>();
}
#[kani::proof]
#[kani::unwind(8)]
fn c05_rt06_close_len3_notoken() {
    rt_close::<3, false>();
}
#[kani::proof]
#[kani::unwind(8)]
fn c05_rt06_close_len4_notoken() {
    rt_close::<4, false>();
}
#[kani::proof]
#[kani::unwind(8)]
fn c05_rt06_close_len1_token() {
    rt_close::<1, true>();
}

fn rt_chunks<const L: usize, const TOKEN: bool>() {
    let payload: [u8; L] = kani::any();
    let p = ConnectedPacket {
        ack: kani::any(),
        token: any_token(TOKEN),
        type_: ConnectedPacketType::Chunks(kani::any(), kani::any(), &payload),
    };
    kani::assume(p.ack >> SEQUENCE_BITS == 0);
    let mut out = [0u8; 24];
    let mut scratch = [0u8; MAX_PACKETSIZE];
    let bytes = p.write(&mut out[..]).unwrap();
    let compressed = bytes[0] & (PACKETFLAG_COMPRESSION << 4) != 0;
    let plain_len = L + if TOKEN { 4 } else { 0 };
    if compressed {
        // compression is used only when strictly shorter
        assert!(bytes.len() < HEADER_SIZE + plain_len);
    } else {
        assert!(bytes.len() == HEADER_SIZE + plain_len);
    }
    rt_check_connected(&p, bytes, TOKEN, &mut scratch);
    kani::cover!(compressed || plain_len < 2);
    kani::cover!(!compressed);
}

#[kani::proof]
#[kani::unwind(10)]
#[kani::stub(libtw2_huffman::Huffman::compress_impl_unsafe, libtw2_huffman::Huffman::verif_compress_oracle)]
#[kani::stub(libtw2_huffman::Huffman::decompress_unsafe, libtw2_huffman::Huffman::verif_decompress_oracle)]
fn c05_rt06_chunks_len0_notoken() {
    rt_chunks::<0, false>();
}
#[kani::proof]
#[kani::unwind(10)]
#[kani::stub(libtw2_huffman::Huffman::compress_impl_unsafe, libtw2_huffman::Huffman::verif_compress_oracle)]
#[kani::stub(libtw2_huffman::Huffman::decompress_unsafe, libtw2_huffman::Huffman::verif_decompress_oracle)]
fn c05_rt06_chunks_len0_token() {
    rt_chunks::<0, true>();
}
#[kani::proof]
#[kani::unwind(10)]
#[kani::stub(libtw2_huffman::Huffman::compress_impl_unsafe, libtw2_huffman::Huffman::verif_compress_oracle)]
#[kani::stub(libtw2_huffman::Huffman::decompress_unsafe, libtw2_huffman::Huffman::verif_decompress_oracle)]
fn c05_rt06_chunks_len1_notoken() {
    rt_chunks::<1, false>();
}
#[kani::proof]
#[kani::unwind(10)]
#[kani::stub(libtw2_huffman::Huffman::compress_impl_unsafe, libtw2_huffman::Huffman::verif_compress_oracle)]
#[kani::stub(libtw2_huffman::Huffman::decompress_unsafe, libtw2_huffman::Huffman::verif_decompress_oracle)]
fn c05_rt06_chunks_len2_token() {
    rt_chunks::<2, true>();
}
#[kani::proof]
#[kani::unwind(10)]
#[kani::stub(libtw2_huffman::Huffman::compress_impl_unsafe, libtw2_huffman::Huffman::verif_compress_oracle)]
#[kani::stub(libtw2_huffman::Huffman::decompress_unsafe, libtw2_huffman::Huffman::verif_decompress_oracle)]
fn c05_rt06_chunks_len3_notoken() {
    rt_chunks::<3, false>();
}
#[kani::proof]
#[kani::unwind(10)]
#[kani::stub(libtw2_huffman::Huffman::compress_impl_unsafe, libtw2_huffman::Huffman::verif_compress_oracle)]
#[kani::stub(libtw2_huffman::Huffman::decompress_unsafe, libtw2_huffman::Huffman::verif_decompress_oracle)]
fn c05_rt06_chunks_len3_token() {
    rt_chunks::<3, true>();
}
#[kani::proof]
#[kani::unwind(10)]
#[kani::stub(libtw2_huffman::Huffman::compress_impl_unsafe, libtw2_huffman::Huffman::verif_compress_oracle)]
#[kani::stub(libtw2_huffman::Huffman::decompress_unsafe, libtw2_huffman::Huffman::verif_decompress_oracle)]
fn c05_rt06_chunks_len4_notoken() {
    rt_chunks::<4, false>();
}
#[kani::proof]
#[kani::unwind(10)]
#[kani::stub(libtw2_huffman::Huffman::compress_impl_unsafe, libtw2_huffman::Huffman::verif_compress_oracle)]
#[kani::stub(libtw2_huffman::Huffman::decompress_unsafe, libtw2_huffman::Huffman::verif_decompress_oracle)]
fn c05_rt06_chunks_len4_token() {
    rt_chunks::<4, true>();
}

fn rt_connless<const L: usize>() {
    let payload: [u8; L] = kani::any();
    let p = Packet::Connless(&payload);
    let mut out = [0u8; 16];
    let bytes = p.write(&mut out[..]).unwrap();
    assert!(bytes.len() == HEADER_SIZE + PADDING_SIZE_CONNLESS + L);
    let hint: Option<bool> = kani::any();
    let mut w = WMask(0);
    match Packet::read_panic_on_decompression(&mut w, bytes, hint) {
        Ok(Packet::Connless(d)) => assert!(v_eq(d, &payload) && w.0 == 0),
        _ => assert!(false),
    }
}
#[kani::proof]
#[kani::unwind(8)]
fn c05_rt06_connless_len0() {
    rt_connless::<0>();
}
#[kani::proof]
#[kani::unwind(8)]
fn c05_rt06_connless_len4() {
    rt_connless::<4>();
}

#[kani::proof]
#[kani::unwind(4)]
fn c05_rt06_too_long_refused() {
    // every payload length beyond the limit is refused with TooLongData, nothing is written
    let big = [0u8; 1500];
    let n: usize = kani::any();
    kani::assume(n > MAX_PAYLOAD && n <= 1500);
    let p = Packet::Connless(&big[..n]);
    let mut out = [0u8; MAX_PACKETSIZE];
    match p.write(&mut out[..]) {
        Err(Error::TooLongData) => {}
        _ => assert!(false),
    }
}

// ---------------------------------------------------------------------------------------------
// C06: the reader is total and stays inside its buffers

fn touch(s: &[u8]) -> u32 {
    // dereference every returned byte: Kani proves each one lies in a live object
    let mut acc = 0u32;
    let mut i = 0;
    while i < s.len() {
        acc = acc.wrapping_add(s[i] as u32);
        i += 1;
    }
    acc
}

static mut PTR_CHECKS: bool = true;

fn inside(s: &[u8], outer: &[u8]) -> bool {
    if unsafe { !PTR_CHECKS } {
        return true;
    }
    let a = s.as_ptr() as usize;
    let b = outer.as_ptr() as usize;
    a >= b && a + s.len() <= b + outer.len()
}

fn drain_chunks(data: &[u8], num: u8, w: &mut WMask, bound: usize) {
    let mut it = ChunksIter::new(data, num);
    let mut k = 0;
    while let Some(c) = it.next_warn(w) {
        assert!(inside(c.data, data));
        touch(c.data);
        if let Some((seq, _)) = c.vital {
            assert!(seq >> SEQUENCE_BITS == 0);
        }
        k += 1;
        assert!(k <= bound);
    }
    // exhausted iterators stay exhausted
    assert!(it.next_warn(w).is_none());
}

fn read_total<const N: usize>(hint: Option<bool>, allow_compressed: bool) {
    let data: [u8; N] = kani::any();
    let len: usize = kani::any();
    kani::assume(len <= N);
    let input = &data[..len];
    if !allow_compressed && len >= 1 {
        // uncompressed class: compression flag clear or connless
        kani::assume(data[0] & (PACKETFLAG_COMPRESSION << 4) == 0 || data[0] & (PACKETFLAG_CONNLESS << 4) != 0);
    }
    let mut w = WMask(0);
    let _ = Packet::is_initial(input);
    // uncompressed class: the scratch buffer is never touched (read without one)
    let r = Packet::read_panic_on_decompression(&mut w, input, hint);
    match &r {
        &Ok(Packet::Connless(d)) => {
            assert!(inside(d, input));
            touch(d);
        }
        &Ok(Packet::Connected(p)) => {
            assert!(p.ack >> SEQUENCE_BITS == 0);
            if hint == Some(false) {
                assert!(p.token.is_none());
            }
            if hint == Some(true) {
                assert!(p.token.is_some());
            }
            match p.type_ {
                ConnectedPacketType::Chunks(_, n, d) => {
                    assert!(inside(d, input));
                    touch(d);
                    let _ = n;
                }
                ConnectedPacketType::Control(ControlPacket::Close(reason)) => {
                    assert!(inside(reason, input));
                    assert!(reason.len() <= CTRLMSG_CLOSE_REASON_LENGTH);
                    assert!(nul_free(reason));
                }
                ConnectedPacketType::Control(_) => {}
            }
        }
        Err(e) => {
            assert!(*e != PacketReadError::TooLong);
            if *e == PacketReadError::TooShort {
                assert!(len < HEADER_SIZE);
            }
        }
    }
    kani::cover!(r.is_ok());
    kani::cover!(r.is_err());
}

#[kani::proof]
#[kani::unwind(10)]
fn c06_read06_total_hint_none() {
    read_total::<7>(None, false);
}
#[kani::proof]
#[kani::unwind(11)]
fn c06_read06_total_hint_true() {
    read_total::<8>(Some(true), false);
}
#[kani::proof]
#[kani::unwind(11)]
fn c06_read06_total_hint_false() {
    read_total::<8>(Some(false), false);
}

fn read_compressed<const N: usize>(hint: Option<bool>, forced: Option<usize>) {
    // compressed class: the Huffman decoder is the codec oracle (arbitrary output)
    VHuffman::verif_oracle().forced_out_len = forced;
    let data: [u8; N] = kani::any();
    let len: usize = kani::any();
    kani::assume(HEADER_SIZE <= len && len <= N);
    kani::assume(data[0] & (PACKETFLAG_COMPRESSION << 4) != 0 && data[0] & (PACKETFLAG_CONNLESS << 4) == 0);
    let input = &data[..len];
    let mut scratch = [0u8; MAX_PACKETSIZE];
    let sp = scratch.as_ptr() as usize;
    let mut w = WMask(0);
    let r = Packet::read(&mut w, input, hint, &mut scratch[..]);
    match r {
        Ok(Packet::Connless(_)) => assert!(false),
        Ok(Packet::Connected(p)) => match p.type_ {
            ConnectedPacketType::Chunks(_, n, d) => {
                let a = d.as_ptr() as usize;
                assert!(a >= sp && a + d.len() <= sp + MAX_PACKETSIZE);
                assert!(d.len() <= MAX_PACKETSIZE - HEADER_SIZE);
                let _ = n;
                if forced.is_none() {
                    touch(d);
                }
            }
            ConnectedPacketType::Control(ControlPacket::Close(reason)) => {
                let a = reason.as_ptr() as usize;
                assert!(a >= sp && a + reason.len() <= sp + MAX_PACKETSIZE);
                assert!(reason.len() <= CTRLMSG_CLOSE_REASON_LENGTH);
            }
            ConnectedPacketType::Control(_) => {}
        },
        Err(_) => {}
    }
    if let Some(m) = forced {
        // a decompressed payload larger than a packet is rejected
        if m > MAX_PACKETSIZE - HEADER_SIZE {
            assert!(r.is_err());
        }
    }
    kani::cover!(r.is_ok() || forced.map(|m| m > MAX_PACKETSIZE - HEADER_SIZE).unwrap_or(false));
    kani::cover!(r.is_err());
}

#[kani::proof]
#[kani::unwind(20)]
#[kani::stub(libtw2_huffman::Huffman::decompress_unsafe, libtw2_huffman::Huffman::verif_decompress_oracle)]
fn c06_read06_compressed_hint_true() {
    read_compressed::<5>(Some(true), None);
}
#[kani::proof]
#[kani::unwind(20)]
#[kani::stub(libtw2_huffman::Huffman::decompress_unsafe, libtw2_huffman::Huffman::verif_decompress_oracle)]
fn c06_read06_compressed_hint_false() {
    read_compressed::<5>(Some(false), None);
}
#[kani::proof]
#[kani::unwind(20)]
#[kani::stub(libtw2_huffman::Huffman::decompress_unsafe, libtw2_huffman::Huffman::verif_decompress_oracle)]
fn c06_read06_compressed_hint_none() {
    read_compressed::<5>(None, None);
}
#[kani::proof]
#[kani::unwind(6)]
#[kani::stub(libtw2_huffman::Huffman::decompress_unsafe, libtw2_huffman::Huffman::verif_decompress_oracle)]
fn c06_read06_compressed_expands_1397() {
    read_compressed::<4>(Some(false), Some(MAX_PACKETSIZE - HEADER_SIZE));
}
#[kani::proof]
#[kani::unwind(6)]
#[kani::stub(libtw2_huffman::Huffman::decompress_unsafe, libtw2_huffman::Huffman::verif_decompress_oracle)]
fn c06_read06_compressed_expands_1398() {
    read_compressed::<4>(Some(false), Some(MAX_PACKETSIZE - HEADER_SIZE + 1));
}

#[kani::proof]
#[kani::unwind(4)]
fn c06_read06_length_gate() {
    // every length 1401..=3000 over a symbolic array: TooLong, nothing else
    let data: [u8; 3000] = kani::any();
    let len: usize = kani::any();
    kani::assume(len > MAX_PACKETSIZE && len <= 3000);
    let hint: Option<bool> = kani::any();
    let mut w = WMask(0);
    let r = Packet::read_panic_on_decompression(&mut w, &data[..len], hint);
    assert!(matches!(r, Err(PacketReadError::TooLong)));
    assert!(w.0 == 0);
    assert!(!Packet::is_initial(&data[..len]));
}

fn rt_check_connected_noscratch(p: &ConnectedPacket, out: &[u8], hint: bool) {
    let mut w = WMask(0);
    let r = Packet::read_panic_on_decompression(&mut w, out, Some(hint));
    match r {
        Ok(Packet::Connected(q)) => {
            assert!(q.ack == p.ack);
            assert!(q.token == p.token);
            match (p.type_, q.type_) {
                (ConnectedPacketType::Chunks(a1, n1, d1), ConnectedPacketType::Chunks(a2, n2, d2)) => {
                    assert!(a1 == a2 && n1 == n2);
                    assert!(v_eq(d1, d2));
                }
                (ConnectedPacketType::Control(c1), ConnectedPacketType::Control(c2)) => match (c1, c2) {
                    (ControlPacket::KeepAlive, ControlPacket::KeepAlive) => {}
                    (ControlPacket::Connect, ControlPacket::Connect) => {}
                    (ControlPacket::ConnectAccept, ControlPacket::ConnectAccept) => {}
                    (ControlPacket::Accept, ControlPacket::Accept) => {}
                    (ControlPacket::Close(r1), ControlPacket::Close(r2)) => assert!(v_eq(r1, r2)),
                    _ => assert!(false),
                },
                _ => assert!(false),
            }
        }
        _ => assert!(false),
    }
}

fn reread<const N: usize>(hint: bool) {
    // whatever the reader accepts (uncompressed class) can be written again and is read back as the
    // same value; the writer's compressor is replaced by "does not fit", i.e. it writes uncompressed
    // (the compressed branch of the writer is C05's rt06_chunks_*)
    let data: [u8; N] = kani::any();
    let len: usize = kani::any();
    kani::assume(len <= N);
    if len >= 1 {
        kani::assume(data[0] & (PACKETFLAG_COMPRESSION << 4) == 0);
    }
    let input = &data[..len];
    let mut w = WMask(0);
    let r = Packet::read_panic_on_decompression(&mut w, input, Some(hint));
    if let Ok(p) = r {
        let mut out = [0u8; 24];
        match p {
            Packet::Connless(d) => {
                let b = p.write(&mut out[..]).unwrap();
                let mut w2 = WMask(0);
                match Packet::read_panic_on_decompression(&mut w2, b, Some(hint)) {
                    Ok(Packet::Connless(d2)) => assert!(v_eq(d, d2)),
                    _ => assert!(false),
                }
            }
            Packet::Connected(cp) => {
                let b = cp.write(&mut out[..]).unwrap();
                rt_check_connected_noscratch(&cp, b, hint);
            }
        }
        kani::cover!(true);
    }
}

#[kani::proof]
#[kani::unwind(10)]
#[kani::stub(libtw2_huffman::Huffman::compress_impl_unsafe, libtw2_huffman::Huffman::verif_compress_never)]
fn c06_reread06_hint_false() {
    reread::<6>(false);
}
#[kani::proof]
#[kani::unwind(12)]
#[kani::stub(libtw2_huffman::Huffman::compress_impl_unsafe, libtw2_huffman::Huffman::verif_compress_never)]
fn c06_reread06_hint_true() {
    reread::<8>(true);
}

// ---------------------------------------------------------------------------------------------
// C03 link: the reader reports the token that the datagram carries

#[kani::proof]
#[kani::unwind(11)]
fn c03_reader_reports_token06() {
    let data: [u8; 8] = kani::any();
    let len: usize = kani::any();
    kani::assume(len <= 8);
    if len >= 1 {
        kani::assume(data[0] & (PACKETFLAG_COMPRESSION << 4) == 0);
    }
    let input = &data[..len];
    let mut w = WMask(0);
    if let Ok(Packet::Connected(p)) = Packet::read_panic_on_decompression(&mut w, input, Some(true)) {
        let t = p.token.unwrap();
        assert!(len >= HEADER_SIZE + 4);
        assert!(t.0[0] == input[len - 4] && t.0[1] == input[len - 3] && t.0[2] == input[len - 2] && t.0[3] == input[len - 1]);
        kani::cover!(true);
    }
    let mut w = WMask(0);
    if let Ok(Packet::Connected(p)) = Packet::read_panic_on_decompression(&mut w, input, Some(false)) {
        assert!(p.token.is_none());
    }
}


fn chunks_iter_total<const N: usize>() {
    // the chunk iterator on every chunk area of <= N bytes and every announced chunk count:
    // terminates, every chunk slice lies inside the area, warnings are consistent
    let data: [u8; N] = kani::any();
    let len: usize = kani::any();
    kani::assume(len <= N);
    let num: u8 = kani::any();
    let area = &data[..len];
    let mut w = WMask(0);
    let mut it = ChunksIter::new(area, num);
    let mut k: usize = 0;
    let mut consumed: usize = 0;
    while let Some(c) = it.next_warn(&mut w) {
        assert!(inside(c.data, area));
        touch(c.data);
        let hdr = if c.vital.is_some() { CHUNK_HEADER_SIZE_VITAL } else { CHUNK_HEADER_SIZE };
        // chunks are consecutive: header then payload
        assert!(c.data.as_ptr() as usize == area.as_ptr() as usize + consumed + hdr);
        consumed += hdr + c.data.len();
        assert!(it.pos() == consumed);
        if let Some((seq, _)) = c.vital {
            assert!(seq >> SEQUENCE_BITS == 0);
        }
        k += 1;
        assert!(k <= N / 2);
    }
    assert!(it.next_warn(&mut w).is_none());
    // chunk count equal to the number of chunks carried <=> no count warning (when the area parsed)
    if !w.has(Warning::ChunksUnknownData) {
        assert!(consumed == len);
        assert!(w.has(Warning::ChunksNumChunks) == (k != num as usize));
    }
    kani::cover!(k == N / 2);
    kani::cover!(w.0 == 0 && k == 2);
    kani::cover!(w.has(Warning::ChunksUnknownData));
}

#[kani::proof]
#[kani::unwind(6)]
fn c06_chunks_iter06_total() {
    chunks_iter_total::<7>();
}

// ---------------------------------------------------------------------------------------------
// Parser stand-in for the feed-level harnesses of the connection layer (C03): returns one fixed
// packet kind per harness with a symbolic token, ack and flags and the input bytes as payload.
// What the real parser reports for a datagram is decided by c03_reader_reports_token06 / C06.

pub static mut VERIF_READ_KIND: u8 = 0;
/// the token the stub reported ([0xfe; 4] = none)
pub static mut VERIF_READ_TOKEN: [u8; 4] = [0; 4];

impl<'a> Packet<'a> {
    pub fn verif_set_kind(k: u8) {
        unsafe {
            VERIF_READ_KIND = k;
        }
    }
    pub fn verif_last_token() -> [u8; 4] {
        unsafe { VERIF_READ_TOKEN }
    }
    pub fn verif_read_stub<'b, B, W>(_warn: &mut W, bytes: &'b [u8], token_hint: Option<bool>, _buffer: B) -> Result<Packet<'b>, PacketReadError>
    where
        B: Buffer<'b>,
        W: Warn<Warning>,
    {
        let has_token = token_hint.unwrap_or(kani::any());
        let t: [u8; 4] = kani::any();
        let token = if has_token { Some(Token(t)) } else { None };
        unsafe {
            VERIF_READ_TOKEN = if has_token { t } else { [0xfe; 4] };
        }
        let ack: u16 = kani::any();
        kani::assume(ack < 1024);
        let type_ = match unsafe { VERIF_READ_KIND } {
            0 => ConnectedPacketType::Control(ControlPacket::KeepAlive),
            1 => ConnectedPacketType::Control(ControlPacket::Close(bytes)),
            2 => ConnectedPacketType::Chunks(kani::any(), kani::any(), bytes),
            3 => ConnectedPacketType::Control(ControlPacket::Connect),
            4 => ConnectedPacketType::Control(ControlPacket::ConnectAccept),
            _ => ConnectedPacketType::Control(ControlPacket::Accept),
        };
        Ok(Packet::Connected(ConnectedPacket { ack: ack, token: token, type_: type_ }))
    }
}

// ---------------------------------------------------------------------------------------------
// C06: Close control message around the 127-byte reason limit. A datagram whose reason field is
// longer than the protocol's limit (or has its terminator late or missing) is accepted with the
// reason cut at the limit; what was accepted can be written again and reads back equal.

fn close_reason_boundary<const N: usize, const T: usize>(hint: bool, nul_at: Option<usize>) {
    // T = HEADER_SIZE + 1 + N. The terminator position is fixed per harness (a symbolic position makes
    // the accepted reason's *length* symbolic, and every later copy a symbolic-length copy: > 8 GB);
    // the content is a non-NUL filler with symbolic non-NUL bytes at the start, in the middle and just
    // before the limit.
    let mut body = [0x61u8; N];
    let s: [u8; 3] = kani::any();
    kani::assume(s[0] != 0 && s[1] != 0 && s[2] != 0);
    body[0] = s[0];
    body[64] = s[1];
    body[125] = s[2];
    if let Some(p) = nul_at {
        body[p] = 0;
    }
    let ack: u16 = kani::any();
    kani::assume(ack >> SEQUENCE_BITS == 0);
    let mut data = [0u8; T];
    data[0] = (PACKETFLAG_CONTROL << 4) | (ack >> 8) as u8;
    data[1] = ack as u8;
    data[2] = 0;
    data[3] = CTRLMSG_CLOSE;
    let mut i = 0;
    while i < N {
        data[HEADER_SIZE + 1 + i] = body[i];
        i += 1;
    }
    let mut w = WMask(0);
    let r = Packet::read_panic_on_decompression(&mut w, &data[..], Some(hint));
    match r {
        Ok(Packet::Connected(cp)) => {
            if let ConnectedPacketType::Control(ControlPacket::Close(reason)) = cp.type_ {
                // within the protocol limit, NUL-free, a prefix of the reason field
                assert!(reason.len() <= CTRLMSG_CLOSE_REASON_LENGTH);
                assert!(nul_free(reason));
                assert!(inside(reason, &data[..]));
                let mut out = [0u8; 160];
                let b = cp.write(&mut out[..]).unwrap();
                rt_check_connected_noscratch(&cp, b, hint);
                let expect = match nul_at {
                    Some(p) if p < CTRLMSG_CLOSE_REASON_LENGTH => p,
                    _ => CTRLMSG_CLOSE_REASON_LENGTH,
                };
                assert!(reason.len() == expect);
                kani::cover!(true, "accepted");
            } else {
                assert!(false);
            }
        }
        Ok(_) => assert!(false),
        Err(_) => {}
    }
}

#[kani::proof]
#[kani::unwind(140)]
#[kani::stub(libtw2_huffman::Huffman::compress_impl_unsafe, libtw2_huffman::Huffman::verif_compress_never)]
fn c06_close06_reason_130_unterminated() {
    // 130-byte reason field without terminator: cut at the 127-byte limit
    close_reason_boundary::<130, 134>(false, None);
}

#[kani::proof]
#[kani::unwind(140)]
#[kani::stub(libtw2_huffman::Huffman::compress_impl_unsafe, libtw2_huffman::Huffman::verif_compress_never)]
fn c06_close06_reason_130_nul_at_127() {
    // terminator right behind the limit (a 127-byte reason)
    close_reason_boundary::<130, 134>(false, Some(127));
}

#[kani::proof]
#[kani::unwind(140)]
#[kani::stub(libtw2_huffman::Huffman::compress_impl_unsafe, libtw2_huffman::Huffman::verif_compress_never)]
fn c06_close06_reason_130_nul_at_126() {
    // 126-byte reason with trailing bytes
    close_reason_boundary::<130, 134>(false, Some(126));
}

#[kani::proof]
#[kani::unwind(140)]
#[kani::stub(libtw2_huffman::Huffman::compress_impl_unsafe, libtw2_huffman::Huffman::verif_compress_never)]
fn c06_close06_reason_130_nul_at_129() {
    // terminator beyond the limit: cut at 127
    close_reason_boundary::<130, 134>(false, Some(129));
}

#[kani::proof]
#[kani::unwind(140)]
#[kani::stub(libtw2_huffman::Huffman::compress_impl_unsafe, libtw2_huffman::Huffman::verif_compress_never)]
fn c06_close06_reason_127_unterminated() {
    // exactly 127 bytes without terminator
    close_reason_boundary::<127, 131>(false, None);
}

