// C14 mount file, include!()-ed into gamenet/*/src/lib.rs under cfg(kani) (module verif_kani).
// Common helper code only; the harnesses themselves are generated on every run from the JSON
// protocol description by harness/gen/gen_gamenet.py into gen_gamenet_ddnet.rs.
#[allow(unused_imports)]
use libtw2_packer::{with_packer, ExcessData, IntUnpacker, Unpacker, Warning};
#[allow(unused_imports)]
use libtw2_warn::Warn;

/// Counting warning sink for both warning types the codecs emit.
#[allow(dead_code)]
#[derive(Default)]
struct C14Warn {
    count: u32,
}
impl Warn<Warning> for C14Warn {
    fn warn(&mut self, _: Warning) {
        self.count += 1;
    }
}
impl Warn<ExcessData> for C14Warn {
    fn warn(&mut self, _: ExcessData) {
        self.count += 1;
    }
}

include!(concat!(env!("LIBTW2_VERIF_HARNESS"), "/gen_gamenet_ddnet.rs"));
