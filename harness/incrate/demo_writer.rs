// C15 support, include!()-ed into demo/src/writer.rs under cfg(kani): a constructor that builds a
// `Writer` field by field over the infallible in-memory stand-in (Writer::new's header serialisation
// through binrw is not in the cone), and the codec-oracle message transform harness.

pub struct MemW {
    pub written: usize,
    pub first: [u8; 16],
}
impl io::Write for MemW {
    fn write(&mut self, data: &[u8]) -> io::Result<usize> {
        let mut i = 0;
        while i < data.len() {
            if self.written < 16 {
                self.first[self.written] = data[i];
            }
            self.written += 1;
            i += 1;
        }
        Ok(data.len())
    }
    fn flush(&mut self) -> io::Result<()> {
        Ok(())
    }
}
impl io::Seek for MemW {
    fn seek(&mut self, _: io::SeekFrom) -> io::Result<u64> {
        Ok(self.written as u64)
    }
}

impl<'a> Writer<'a> {
    /// in-place construction in zeroed storage (the two 64 KiB ArrayVecs stay all-zero = empty)
    pub(crate) unsafe fn verif_init_in_place(p: *mut Writer<'a>, prev_tick: Option<i32>) {
        core::ptr::addr_of_mut!((*p).file).write(Box::new(MemW { written: 0, first: [0; 16] }));
        core::ptr::addr_of_mut!((*p).header).write(Header {
            net_version: CappedString::from_raw(b""),
            map_name: CappedString::from_raw(b""),
            map_size: 0,
            map_crc: 0,
            kind: DemoKind::Server,
            length: 0,
            timestamp: CappedString::from_raw(b""),
        });
        core::ptr::addr_of_mut!((*p).prev_tick).write(prev_tick);
    }
    pub(crate) fn verif_new(prev_tick: Option<i32>) -> Writer<'a> {
        Writer {
            file: Box::new(MemW { written: 0, first: [0; 16] }),
            header: Header {
                net_version: CappedString::from_raw(b""),
                map_name: CappedString::from_raw(b""),
                map_size: 0,
                map_crc: 0,
                kind: DemoKind::Server,
                length: 0,
                timestamp: CappedString::from_raw(b""),
            },
            prev_tick: prev_tick,
            huffman: ArrayVec::new(),
            buffer2: ArrayVec::new(),
        }
    }
}

#[kani::proof]
#[kani::unwind(8)]
#[kani::stub(libtw2_huffman::Huffman::compress_impl_unsafe, libtw2_huffman::Huffman::verif_compress_oracle)]
fn c15_write_tick_sequence() {
    // the raw writer accepts strictly increasing ticks on both sides of the inline-delta limit
    let t0: i32 = kani::any();
    let t1: i32 = kani::any();
    kani::assume(t0 < t1);
    let mut w = Writer::verif_new(None);
    assert!(w.write_tick(true, t0).is_ok());
    assert!(w.write_tick(kani::any(), t1).is_ok());
    assert!(w.prev_tick == Some(t1));
    core::mem::forget(w);
}

fn message_padding<const L: usize>() {
    // Writer::write_message: what is handed to the compressor is the variable-length integer coding
    // of the message's 4-byte little-endian groups, the last group zero-padded. Decoding those bytes
    // the way Reader::read_chunk's Message branch does (read_int until empty, to_le_bytes - loop
    // body transcribed here) returns the message zero-padded to a multiple of four bytes.
    let msg: [u8; L] = kani::any();
    let mut w = Writer::verif_new(None);
    assert!(w.write_message(&msg).is_ok());
    let o = libtw2_huffman::Huffman::verif_oracle();
    assert!(o.compress_calls == 1 && o.valid);
    let plain = &o.plain[..o.plain_len];
    let mut u = libtw2_packer::Unpacker::new(plain);
    let mut out = [0u8; 8];
    let mut len = 0;
    struct NoWarn(u32);
    impl libtw2_warn::Warn<libtw2_packer::Warning> for NoWarn {
        fn warn(&mut self, _: libtw2_packer::Warning) {
            self.0 += 1;
        }
    }
    let mut nw = NoWarn(0);
    while !u.is_empty() {
        let n = u.read_int(&mut nw).unwrap();
        let b = n.to_le_bytes();
        assert!(len + 4 <= 8);
        out[len] = b[0];
        out[len + 1] = b[1];
        out[len + 2] = b[2];
        out[len + 3] = b[3];
        len += 4;
    }
    assert!(nw.0 == 0);
    assert!(len == (L + 3) / 4 * 4);
    let mut i = 0;
    while i < len {
        assert!(out[i] == if i < L { msg[i] } else { 0 });
        i += 1;
    }
    core::mem::forget(w);
}

#[kani::proof]
#[kani::unwind(8)]
#[kani::stub(libtw2_huffman::Huffman::compress_impl_unsafe, libtw2_huffman::Huffman::verif_compress_oracle)]
fn c15_message_padding_len0() {
    message_padding::<0>();
}
#[kani::proof]
#[kani::unwind(8)]
#[kani::stub(libtw2_huffman::Huffman::compress_impl_unsafe, libtw2_huffman::Huffman::verif_compress_oracle)]
fn c15_message_padding_len3() {
    message_padding::<3>();
}
#[kani::proof]
#[kani::unwind(8)]
#[kani::stub(libtw2_huffman::Huffman::compress_impl_unsafe, libtw2_huffman::Huffman::verif_compress_oracle)]
fn c15_message_padding_len4() {
    message_padding::<4>();
}
#[kani::proof]
#[kani::unwind(12)]
#[kani::stub(libtw2_huffman::Huffman::compress_impl_unsafe, libtw2_huffman::Huffman::verif_compress_oracle)]
fn c15_message_padding_len6() {
    message_padding::<6>();
}
