// C15 support, include!()-ed into demo/src/writer.rs under cfg(kani): a constructor that builds a
// `Writer` field by field over the infallible in-memory stand-in (Writer::new's header serialisation
// through binrw is not in the cone), and the codec-oracle message transform harness.

pub static mut CAPTURED: [u8; 16] = [0; 16];
pub static mut CAPTURED_LEN: usize = 0;
pub static mut CAPTURE_CALLS: u32 = 0;
pub static mut CAPTURE_IS_MESSAGE: bool = false;

pub struct MemW {
    pub written: usize,
    pub first: [u8; 16],
}
impl io::Write for MemW {
    fn write(&mut self, data: &[u8]) -> io::Result<usize> {
        let mut i = 0;
        while i < data.len() {
            if self.written < 16 {
                self.first[self.written] = data[i];
            }
            self.written += 1;
            i += 1;
        }
        Ok(data.len())
    }
    fn flush(&mut self) -> io::Result<()> {
        Ok(())
    }
    // The default write_all loops over write() and constructs an io::Error (WriteZero) on a path
    // that symbolic execution cannot prune when the slice length is symbolic; the drop glue of
    // io::Error is recursive and made every query through this stand-in run out of memory. The
    // stand-in never fails, so it says so directly (DESIGN 3.1 rule 3).
    fn write_all(&mut self, data: &[u8]) -> io::Result<()> {
        let _ = self.write(data);
        Ok(())
    }
    fn write_fmt(&mut self, _: core::fmt::Arguments<'_>) -> io::Result<()> {
        Ok(())
    }
}
impl io::Seek for MemW {
    fn seek(&mut self, _: io::SeekFrom) -> io::Result<u64> {
        Ok(self.written as u64)
    }
}

impl<'a> Writer<'a> {
    /// in-place construction in zeroed storage (the two 64 KiB ArrayVecs stay all-zero = empty)
    pub(crate) unsafe fn verif_init_in_place(p: *mut Writer<'a>, prev_tick: Option<i32>) {
        core::ptr::addr_of_mut!((*p).file).write(Box::new(MemW { written: 0, first: [0; 16] }));
        core::ptr::addr_of_mut!((*p).header).write(Header {
            net_version: CappedString::from_raw(b""),
            map_name: CappedString::from_raw(b""),
            map_size: 0,
            map_crc: 0,
            kind: DemoKind::Server,
            length: 0,
            timestamp: CappedString::from_raw(b""),
        });
        core::ptr::addr_of_mut!((*p).prev_tick).write(prev_tick);
    }
    /// stand-in for the chunk body path (Huffman coding into a 64 KiB buffer, chunk header, file
    /// write) used by the typed-writer tick harnesses: the tick logic under test does not depend on it
    pub(crate) fn verif_write_chunk_impl_stub(&mut self, _kind: DataKind, _data: Option<&[u8]>) -> Result<(), WriteError> {
        Ok(())
    }
    /// capturing stand-in for the chunk body path: records what write_message hands to the chunk
    /// writer (the real function takes `data.unwrap_or(&self.buffer2)`, compresses it and writes it
    /// behind a chunk header; the message transform under test ends where this begins)
    pub(crate) fn verif_write_chunk_impl_capture(&mut self, kind: DataKind, data: Option<&[u8]>) -> Result<(), WriteError> {
        let d: &[u8] = data.unwrap_or(&self.buffer2);
        unsafe {
            CAPTURE_CALLS += 1;
            CAPTURE_IS_MESSAGE = kind == DataKind::Message;
            CAPTURED_LEN = d.len();
            let mut i = 0;
            while i < d.len() && i < 16 {
                CAPTURED[i] = d[i];
                i += 1;
            }
        }
        Ok(())
    }
    pub(crate) fn verif_set_prev_tick(&mut self, t: Option<i32>) {
        self.prev_tick = t;
    }
    pub(crate) fn verif_prev_tick(&self) -> Option<i32> {
        self.prev_tick
    }
    pub(crate) fn verif_new(prev_tick: Option<i32>) -> Writer<'a> {
        Writer {
            file: Box::new(MemW { written: 0, first: [0; 16] }),
            header: Header {
                net_version: CappedString::from_raw(b""),
                map_name: CappedString::from_raw(b""),
                map_size: 0,
                map_crc: 0,
                kind: DemoKind::Server,
                length: 0,
                timestamp: CappedString::from_raw(b""),
            },
            prev_tick: prev_tick,
            huffman: ArrayVec::new(),
            buffer2: ArrayVec::new(),
        }
    }
}

#[kani::proof]
#[kani::unwind(8)]
#[kani::stub(libtw2_huffman::Huffman::compress_impl_unsafe, libtw2_huffman::Huffman::verif_compress_oracle)]
fn c15_write_tick_sequence() {
    // the raw writer accepts strictly increasing ticks on both sides of the inline-delta limit
    let t0: i32 = kani::any();
    let t1: i32 = kani::any();
    kani::assume(t0 < t1);
    let mut w = Writer::verif_new(None);
    assert!(w.write_tick(true, t0).is_ok());
    assert!(w.write_tick(kani::any(), t1).is_ok());
    assert!(w.prev_tick == Some(t1));
    core::mem::forget(w);
}

fn message_padding<const L: usize>() {
    // Writer::write_message: what is handed to the chunk writer is the variable-length integer coding
    // of the message's 4-byte little-endian groups, the last group zero-padded. Decoding those bytes
    // the way Reader::read_chunk's Message branch does (read_int until empty, to_le_bytes - loop
    // body transcribed here) returns the message zero-padded to a multiple of four bytes.
    let msg: [u8; L] = kani::any();
    // built in place in zero-initialised heap storage (two 64 KiB buffers; see demo_ddnet_writer.rs)
    let w: &mut Writer<'static> = unsafe {
        let p = std::alloc::alloc_zeroed(std::alloc::Layout::new::<Writer<'static>>()) as *mut Writer<'static>;
        Writer::verif_init_in_place(p, None);
        &mut *p
    };
    let wr = w.write_message(&msg);
    let wrote = wr.is_ok();
    core::mem::forget(wr);
    assert!(wrote);
    let (calls, is_msg, cap_len) = unsafe { (CAPTURE_CALLS, CAPTURE_IS_MESSAGE, CAPTURED_LEN) };
    assert!(calls == 1 && is_msg && cap_len <= 16);
    let captured: [u8; 16] = unsafe { CAPTURED };
    let plain = &captured[..cap_len];
    let mut u = libtw2_packer::Unpacker::new(plain);
    let mut out = [0u8; 8];
    let mut len = 0;
    struct NoWarn(u32);
    impl libtw2_warn::Warn<libtw2_packer::Warning> for NoWarn {
        fn warn(&mut self, _: libtw2_packer::Warning) {
            self.0 += 1;
        }
    }
    let mut nw = NoWarn(0);
    while !u.is_empty() {
        let n = u.read_int(&mut nw).unwrap();
        let b = n.to_le_bytes();
        assert!(len + 4 <= 8);
        out[len] = b[0];
        out[len + 1] = b[1];
        out[len + 2] = b[2];
        out[len + 3] = b[3];
        len += 4;
    }
    assert!(nw.0 == 0);
    assert!(len == (L + 3) / 4 * 4);
    let mut i = 0;
    while i < len {
        assert!(out[i] == if i < L { msg[i] } else { 0 });
        i += 1;
    }
}

#[kani::proof]
#[kani::unwind(12)]
#[kani::stub(Writer::write_chunk_impl, Writer::verif_write_chunk_impl_capture)]
fn c15_message_padding_len0() {
    message_padding::<0>();
}
#[kani::proof]
#[kani::unwind(12)]
#[kani::stub(Writer::write_chunk_impl, Writer::verif_write_chunk_impl_capture)]
fn c15_message_padding_len3() {
    message_padding::<3>();
}
#[kani::proof]
#[kani::unwind(12)]
#[kani::stub(Writer::write_chunk_impl, Writer::verif_write_chunk_impl_capture)]
fn c15_message_padding_len4() {
    message_padding::<4>();
}
#[kani::proof]
#[kani::unwind(12)]
#[kani::stub(Writer::write_chunk_impl, Writer::verif_write_chunk_impl_capture)]
fn c15_message_padding_len6() {
    message_padding::<6>();
}
#[kani::proof]
#[kani::unwind(12)]
#[kani::stub(Writer::write_chunk_impl, Writer::verif_write_chunk_impl_capture)]
fn c15_message_padding_len5() {
    message_padding::<5>();
}
