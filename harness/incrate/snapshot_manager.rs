// C13 harnesses on the receiving side's glue (Manager), include!()-ed into snapshot/src/manager.rs
// under cfg(kani). Real code driven: ManagerInner::add_delta (delta parsing / clearing, then
// Storage::add_delta) from a pre-state built field by field: storage holds ticks 10 and 5, and
// `temp_delta` still holds the non-trivial delta parsed from the *previous* message.

use crate::format::TypeId;

struct MW(u32);
impl Warn<Warning> for MW {
    fn warn(&mut self, _: Warning) {
        self.0 += 1;
    }
}

fn manager_step(with_data: bool) {
    let v10: i32 = kani::any();
    let v5: i32 = kani::any();
    let stale: i32 = kani::any();
    kani::assume(stale != 0);
    let mut inner = ManagerInner { temp_delta: Storage::verif_update_delta(stale), storage: Storage::verif_storage_10_5(v10, v5) };
    let mut w = MW(0);
    // an empty delta in its wire form: 0 deleted, 0 updated, 0 padding
    let empty_delta = [0u8, 0, 0];
    let crc: i32 = kani::any();
    let rd = ReceivedDelta { delta_tick: 10, tick: 12, data_and_crc: if with_data { Some((&empty_delta[..], crc)) } else { None } };
    let res = inner.add_delta(&mut w, |_| None, rd).map(|s| (s.item(TypeId::Ordinal(3), 1).map(|d| d[0]), s.crc()));
    match res {
        Ok((word, c)) => {
            // an unchanged world: the accepted snapshot for tick 12 equals the one for tick 10
            assert!(word == Some(v10));
            assert!(c == v10);
            assert!(!with_data || crc == v10);
            assert!(inner.storage.ack_tick() == Some(12));
            kani::cover!(true, "accepted");
        }
        Err(_) => {
            // only a checksum mismatch can refuse it
            assert!(with_data && crc != v10);
            assert!(inner.storage.ack_tick() != Some(12));
            kani::cover!(with_data, "refused");
        }
    }
    core::mem::forget(inner);
}

#[kani::proof]
#[kani::unwind(6)]
fn c13_manager_empty_message_after_nontrivial_delta() {
    // a payload-less snapshot message (SnapEmpty) after a message that carried a real delta
    manager_step(false);
}

#[kani::proof]
#[kani::unwind(6)]
fn c13_manager_empty_delta_after_nontrivial_delta() {
    // a message whose payload is the empty delta
    manager_step(true);
}
