// C16 harnesses, include!()-ed into datafile/src/raw.rs under cfg(kani).
// Real code driven: raw::Reader::{check, item_header, item, items, item_types, item_type_items,
// item_type_indices, find_item, data_size_file, num_*}, format::{HeaderRest::check,
// Header::check_size_and_swaplen, calculate_total_size}. The Reader value is built field by field
// (vector lengths fixed by the shape, contents fully symbolic), as Reader::new leaves it before
// calling check().

fn any_header(version: i32, n_types: i32, n_items: i32, n_data: i32) -> format::Header {
    format::Header {
        hv: format::HeaderVersion { magic: *b"DATA", version: version },
        hr: format::HeaderRest {
            size: kani::any(),
            swaplen: kani::any(),
            num_item_types: n_types,
            num_items: n_items,
            num_data: n_data,
            size_items: kani::any(),
            size_data: kani::any(),
        },
    }
}

fn any_item_type() -> format::ItemType {
    format::ItemType { type_id: kani::any(), start: kani::any(), num: kani::any() }
}

fn touch(d: &[i32]) {
    let mut i = 0;
    let mut acc = 0i32;
    while i < d.len() {
        acc = acc.wrapping_add(d[i]);
        i += 1;
    }
    let _ = acc;
}

fn traverse(r: &Reader, max_items: usize) {
    // everything the reader exposes, for every valid index
    assert!(r.num_items() <= max_items);
    let mut i = 0;
    while i < r.num_items() {
        let it = r.item(i);
        touch(it.data);
        i += 1;
    }
    for it in r.items() {
        touch(it.data);
    }
    for t in r.item_types() {
        let idx = r.item_type_indices(t);
        assert!(idx.start <= idx.end && idx.end <= r.num_items());
        for it in r.item_type_items(t) {
            assert!(it.type_id == t);
            touch(it.data);
        }
        let _ = r.find_item(t, kani::any());
    }
    let _ = r.item_type_indices(kani::any());
    let mut d = 0;
    while d < r.num_data() {
        let sz = r.data_size_file(d);
        assert!(sz <= r.header.hr.size_data as usize);
        d += 1;
    }
}

fn check_total<const NT: usize, const NI: usize, const ND: usize, const NW: usize>(v4: bool) {
    let mut header = any_header(if v4 { 4 } else { 3 }, NT as i32, NI as i32, ND as i32);
    // Reader::new reads size_items/4 words of items: the vector length mirrors the header field
    header.hr.size_items = (NW * 4) as i32;
    // what Header::read guarantees before check() runs
    kani::assume(header.hr.check().is_ok());
    let mut item_types = Vec::with_capacity(NT);
    let mut k = 0;
    while k < NT {
        item_types.push(any_item_type());
        k += 1;
    }
    let item_offsets: [i32; NI] = kani::any();
    let data_offsets: [i32; ND] = kani::any();
    let uds: [i32; ND] = kani::any();
    let words: [i32; NW] = kani::any();
    let r = Reader {
        header: header,
        item_types: item_types,
        item_offsets: item_offsets.to_vec(),
        data_offsets: data_offsets.to_vec(),
        uncomp_data_sizes: if v4 { Some(uds.to_vec()) } else { None },
        items_raw: words.to_vec(),
        version: if v4 { Version::V4 } else { Version::V3 },
    };
    let c = r.check();
    if c.is_ok() {
        traverse(&r, NI);
        kani::cover!(true, "accepted and traversed");
    }
    kani::cover!(c.is_err());
    mem::forget(r);
}

#[kani::proof]
#[kani::unwind(6)]
fn c16_check_total_t1_i1_d0_w3() {
    check_total::<1, 1, 0, 3>(false);
}
#[kani::proof]
#[kani::unwind(8)]
fn c16_check_total_t1_i2_d1_w6() {
    check_total::<1, 2, 1, 6>(true);
}
#[kani::proof]
#[kani::unwind(8)]
fn c16_check_total_t2_i2_d2_w5() {
    check_total::<2, 2, 2, 5>(false);
}
#[kani::proof]
#[kani::unwind(6)]
fn c16_check_total_t0_i0_d1_w0() {
    check_total::<0, 0, 1, 0>(true);
}
#[kani::proof]
#[kani::unwind(8)]
fn c16_check_total_t2_i1_d0_w2() {
    check_total::<2, 1, 0, 2>(false);
}

#[kani::proof]
#[kani::unwind(6)]
fn c16_header_arith() {
    // every header field over all of i32: the header checks return a value or an error; accepted
    // headers have non-negative counts, an aligned item area and a total size below 2 GiB
    let version: i32 = kani::any();
    kani::assume(version == 3 || version == 4);
    let h = format::Header {
        hv: format::HeaderVersion { magic: *b"DATA", version: version },
        hr: format::HeaderRest {
            size: kani::any(),
            swaplen: kani::any(),
            num_item_types: kani::any(),
            num_items: kani::any(),
            num_data: kani::any(),
            size_items: kani::any(),
            size_data: kani::any(),
        },
    };
    assert!(h.hv.check().is_ok());
    if h.hr.check().is_ok() {
        assert!(h.hr.num_item_types >= 0 && h.hr.num_items >= 0 && h.hr.num_data >= 0);
        assert!(h.hr.size_items >= 0 && h.hr.size_items % 4 == 0 && h.hr.size_data >= 0);
        if let Ok(res) = h.check_size_and_swaplen() {
            assert!(res.expected_size < (1u32 << 31));
            let total: u64 = 36
                + 12 * h.hr.num_item_types as u64
                + 4 * h.hr.num_items as u64
                + 4 * h.hr.num_data as u64 * if version == 4 { 2 } else { 1 }
                + h.hr.size_items as u64
                + h.hr.size_data as u64;
            assert!(res.expected_size as u64 == total);
            kani::cover!(res.crude_version);
            kani::cover!(!res.crude_version);
        }
    }
}
