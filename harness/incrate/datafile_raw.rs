// C16 harnesses, include!()-ed into datafile/src/raw.rs under cfg(kani).
// Real code driven: raw::Reader::{check, item_header, item, items, item_types, item_type_items,
// item_type_indices, find_item, data_size_file, num_*}, format::{HeaderRest::check,
// Header::check_size_and_swaplen, calculate_total_size}. The Reader value is built field by field
// (vector lengths fixed by the shape, contents fully symbolic), as Reader::new leaves it before
// calling check().

fn any_header(version: i32, n_types: i32, n_items: i32, n_data: i32) -> format::Header {
    format::Header {
        hv: format::HeaderVersion { magic: *b"DATA", version: version },
        hr: format::HeaderRest {
            size: kani::any(),
            swaplen: kani::any(),
            num_item_types: n_types,
            num_items: n_items,
            num_data: n_data,
            size_items: kani::any(),
            size_data: kani::any(),
        },
    }
}

fn any_item_type() -> format::ItemType {
    format::ItemType { type_id: kani::any(), start: kani::any(), num: kani::any() }
}

fn touch(d: &[i32]) {
    let mut i = 0;
    let mut acc = 0i32;
    while i < d.len() {
        acc = acc.wrapping_add(d[i]);
        i += 1;
    }
    let _ = acc;
}

fn traverse(r: &Reader, max_items: usize) {
    // everything the reader exposes, for every valid index
    assert!(r.num_items() <= max_items);
    let mut i = 0;
    while i < r.num_items() {
        let it = r.item(i);
        touch(it.data);
        i += 1;
    }
    for it in r.items() {
        touch(it.data);
    }
    for t in r.item_types() {
        let idx = r.item_type_indices(t);
        assert!(idx.start <= idx.end && idx.end <= r.num_items());
        for it in r.item_type_items(t) {
            assert!(it.type_id == t);
            touch(it.data);
        }
        let _ = r.find_item(t, kani::any());
    }
    let _ = r.item_type_indices(kani::any());
    let mut d = 0;
    while d < r.num_data() {
        let sz = r.data_size_file(d);
        assert!(sz <= r.header.hr.size_data as usize);
        d += 1;
    }
}

fn check_total<const NT: usize, const NI: usize, const ND: usize, const NW: usize>(v4: bool) {
    let mut header = any_header(if v4 { 4 } else { 3 }, NT as i32, NI as i32, ND as i32);
    // Reader::new reads size_items/4 words of items: the vector length mirrors the header field
    header.hr.size_items = (NW * 4) as i32;
    // what Header::read guarantees before check() runs
    kani::assume(header.hr.check().is_ok());
    let mut item_types = Vec::with_capacity(NT);
    let mut k = 0;
    while k < NT {
        item_types.push(any_item_type());
        k += 1;
    }
    let item_offsets: [i32; NI] = kani::any();
    let data_offsets: [i32; ND] = kani::any();
    let uds: [i32; ND] = kani::any();
    let words: [i32; NW] = kani::any();
    let r = Reader {
        header: header,
        item_types: item_types,
        item_offsets: item_offsets.to_vec(),
        data_offsets: data_offsets.to_vec(),
        uncomp_data_sizes: if v4 { Some(uds.to_vec()) } else { None },
        items_raw: words.to_vec(),
        version: if v4 { Version::V4 } else { Version::V3 },
    };
    let c = r.check();
    if c.is_ok() {
        traverse(&r, NI);
        kani::cover!(true, "accepted and traversed");
    }
    kani::cover!(c.is_err());
    mem::forget(r);
}

#[kani::proof]
#[kani::unwind(6)]
fn c16_check_total_t1_i1_d0_w3() {
    check_total::<1, 1, 0, 3>(false);
}
#[kani::proof]
#[kani::unwind(8)]
fn c16_check_total_t1_i2_d1_w6() {
    check_total::<1, 2, 1, 6>(true);
}
#[kani::proof]
#[kani::unwind(8)]
fn c16_check_total_t2_i2_d2_w5() {
    check_total::<2, 2, 2, 5>(false);
}
#[kani::proof]
#[kani::unwind(6)]
fn c16_check_total_t0_i0_d1_w0() {
    check_total::<0, 0, 1, 0>(true);
}
#[kani::proof]
#[kani::unwind(8)]
fn c16_check_total_t2_i1_d0_w2() {
    check_total::<2, 1, 0, 2>(false);
}

#[kani::proof]
#[kani::unwind(6)]
fn c16_header_arith() {
    // every header field over all of i32: the header checks return a value or an error; accepted
    // headers have non-negative counts, an aligned item area and a total size below 2 GiB
    let version: i32 = kani::any();
    kani::assume(version == 3 || version == 4);
    let h = format::Header {
        hv: format::HeaderVersion { magic: *b"DATA", version: version },
        hr: format::HeaderRest {
            size: kani::any(),
            swaplen: kani::any(),
            num_item_types: kani::any(),
            num_items: kani::any(),
            num_data: kani::any(),
            size_items: kani::any(),
            size_data: kani::any(),
        },
    };
    assert!(h.hv.check().is_ok());
    if h.hr.check().is_ok() {
        assert!(h.hr.num_item_types >= 0 && h.hr.num_items >= 0 && h.hr.num_data >= 0);
        assert!(h.hr.size_items >= 0 && h.hr.size_items % 4 == 0 && h.hr.size_data >= 0);
        if let Ok(res) = h.check_size_and_swaplen() {
            assert!(res.expected_size < (1u32 << 31));
            let total: u64 = 36
                + 12 * h.hr.num_item_types as u64
                + 4 * h.hr.num_items as u64
                + 4 * h.hr.num_data as u64 * if version == 4 { 2 } else { 1 }
                + h.hr.size_items as u64
                + h.hr.size_data as u64;
            assert!(res.expected_size as u64 == total);
            kani::cover!(res.crude_version);
            kani::cover!(!res.crude_version);
        }
    }
}

fn wellformed_accepted(v4: bool) {
    // A well-formed file as an independent writer following doc/datafile.md lays it out: one item
    // type with two items (0 and 1 data words), two data blocks of symbolic stored sizes s0, s1 >= 0
    // (an empty block - also as the last one - is legal). The validation pass must accept it and the
    // accessors must return exactly what was stored.
    let type_id: u16 = kani::any();
    let id0: u16 = kani::any();
    let id1: u16 = kani::any();
    let w: i32 = kani::any();
    let s0: i32 = kani::any();
    let s1: i32 = kani::any();
    kani::assume(0 <= s0 && s0 <= 1 << 20 && 0 <= s1 && s1 <= 1 << 20);
    let tk = |id: u16| ((type_id as u32) << 16 | id as u32) as i32;
    // items: [key0, size 0] [key1, size 4, w]
    let words = [tk(id0), 0, tk(id1), 4, w];
    let mut header = any_header(if v4 { 4 } else { 3 }, 1, 2, 2);
    header.hr.size_items = 20;
    header.hr.size_data = s0 + s1;
    let types = 12;
    let offs = 4 * 2 + 4 * 2 * if v4 { 2 } else { 1 };
    header.hr.swaplen = 20 + types + offs + 20;
    header.hr.size = header.hr.swaplen + 8 + s0 + s1;
    let mut item_types = Vec::with_capacity(1);
    item_types.push(format::ItemType { type_id: type_id as i32, start: 0, num: 2 });
    let uds: [i32; 2] = kani::any();
    kani::assume(uds[0] >= 0 && uds[1] >= 0);
    let r = Reader {
        header: header,
        item_types: item_types,
        item_offsets: [0, 8].to_vec(),
        data_offsets: [0, s0].to_vec(),
        uncomp_data_sizes: if v4 { Some(uds.to_vec()) } else { None },
        items_raw: words.to_vec(),
        version: if v4 { Version::V4 } else { Version::V3 },
    };
    assert!(r.header.hr.check().is_ok());
    assert!(r.check().is_ok());
    assert!(r.num_items() == 2 && r.num_data() == 2);
    let i0 = r.item(0);
    let i1 = r.item(1);
    assert!(i0.type_id == type_id && i0.id == id0 && i0.data.len() == 0);
    assert!(i1.type_id == type_id && i1.id == id1 && i1.data.len() == 1 && i1.data[0] == w);
    assert!(r.data_size_file(0) == s0 as usize && r.data_size_file(1) == s1 as usize);
    let idx = r.item_type_indices(type_id);
    assert!(idx.start == 0 && idx.end == 2);
    kani::cover!(s1 == 0, "empty last data block");
    kani::cover!(s0 == 0 && s1 == 0, "only empty data blocks");
    mem::forget(r);
}

#[kani::proof]
#[kani::unwind(8)]
fn c16_wellformed_accepted_v3() {
    wellformed_accepted(false);
}
#[kani::proof]
#[kani::unwind(8)]
fn c16_wellformed_accepted_v4() {
    wellformed_accepted(true);
}
