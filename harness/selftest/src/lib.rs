// Runner self-test: one harness that must verify and one reachability twin that must fail.
#[cfg(kani)]
mod h {
    #[kani::proof]
    fn selftest_pass() {
        let x: u8 = kani::any();
        assert!(x as u32 + 1 > x as u32);
        kani::cover!(x == 255);
    }
    #[kani::proof]
    fn selftest_twin_must_fail() {
        let x: u8 = kani::any();
        kani::assume(x > 3);
        assert!(false);
    }
}
