#!/usr/bin/env python3
"""C14: generates one Kani harness per message / snapshot object of the four protocol descriptions.

argv: <scratch_repo_dir> <harness_dir> <tier> <seed> <property_id>

The ORACLE is the JSON description (gamenet/generate/spec/*.json of the scratch copy): member order,
kinds, int32 ranges, enum value sets, string flags, ids.  Only the name mangling (struct, variant and
field names) follows gamenet/generate/datatypes.py (title()/snake()).

Output (always): gen_gamenet_<crate>.rs for the four crates and C14_harnesses.json in <harness_dir>.
For property ids other than C14 the .rs files are empty (they are include!()-ed under cfg(kani) and
must merely compile) and the JSON list is empty.

quick tier  : a seeded stratified sample (about 30 message harnesses covering every crate, every
              message family and every member kind, plus 10 snapshot objects covering every member kind
              that occurs in objects); only the sampled harnesses are written to the .rs files.
thorough    : everything.
Environment : VERIF_C14_ONLY=<substr>[,<substr>...] forces the harnesses whose name contains one of the
              substrings into the quick set (development aid).
"""
import json
import os
import random
import sys

CRATES = [
    # short name,     spec file,                  cargo package,                   crate dir
    ("teeworlds_0_5", "teeworlds-0.5.json", "libtw2-gamenet-teeworlds-0-5", "teeworlds-0.5"),
    ("teeworlds_0_6", "teeworlds-0.6.json", "libtw2-gamenet-teeworlds-0-6", "teeworlds-0.6"),
    ("teeworlds_0_7", "teeworlds-0.7-trunk.json", "libtw2-gamenet-teeworlds-0-7", "teeworlds-0.7"),
    ("ddnet", "ddnet-19.6.json", "libtw2-gamenet-ddnet", "ddnet"),
]

I32_MIN = -(1 << 31)
I32_MAX = (1 << 31) - 1

# at most this many integer members of a message whose described set needs more than one varint byte are
# left unrestricted in a roundtrip/reject harness; the others are symbolic within described set /\ [-64, 63]
WIDE_MAX = 1
TOTAL_TAIL = 6
SEED = [0]

INT_KINDS = ("int32", "boolean", "enum", "flags", "tick", "tune_param")

# --------------------------------------------------------------------------------------------------
# name mangling, as in gamenet/generate/datatypes.py


def title(c):
    return "".join(p.title() for p in c)


SNAKE_REPLACEMENTS = {("self",): "self_", ("type",): "type_"}


def snake(c):
    c = tuple(c)
    if c in SNAKE_REPLACEMENTS:
        return SNAKE_REPLACEMENTS[c]
    return "_".join(c)


# --------------------------------------------------------------------------------------------------
# described value sets


def intervals_of(values):
    values = sorted(set(values))
    out = []
    for v in values:
        if out and out[-1][1] == v - 1:
            out[-1][1] = v
        else:
            out.append([v, v])
    return [tuple(x) for x in out]


def rs_i32(v):
    if v == I32_MIN:
        return "i32::MIN"
    if v == I32_MAX:
        return "i32::MAX"
    return "(%d)" % v if v < 0 else "%d" % v


def in_set_expr(ivs, v):
    """Rust boolean expression: v is in the union of the closed intervals (None = every i32)"""
    if ivs is None:
        return "true"
    parts = []
    for lo, hi in ivs:
        if lo == hi:
            parts.append("%s == %s" % (v, rs_i32(lo)))
        elif lo == I32_MIN:
            parts.append("%s <= %s" % (v, rs_i32(hi)))
        elif hi == I32_MAX:
            parts.append("%s >= %s" % (v, rs_i32(lo)))
        else:
            parts.append("(%s >= %s && %s <= %s)" % (v, rs_i32(lo), v, rs_i32(hi)))
    return "(" + " || ".join(parts) + ")"


def is_narrow(ivs):
    """every value of the set is encoded in one varint byte"""
    return ivs is not None and all(lo >= -64 and hi <= 63 for lo, hi in ivs)


def has_narrow_values(ivs):
    return ivs is None or any(lo <= 63 and hi >= -64 for lo, hi in ivs)


class Spec:
    def __init__(self, j):
        self.j = j
        self.enums = {tuple(e["name"]): [v["value"] for v in e["values"]] for e in j["game_enumerations"]}
        self.objects = {tuple(o["name"]): o for o in j["snapshot_objects"]}

    def int_set(self, t):
        """described set of an integer-like member type as interval list, None = all of i32"""
        k = t["kind"]
        if k == "int32":
            lo = t.get("min", I32_MIN)
            hi = t.get("max", I32_MAX)
            if lo == I32_MIN and hi == I32_MAX:
                return None
            return [(lo, hi)]
        if k == "boolean":
            return [(0, 1)]
        if k == "enum":
            return intervals_of(self.enums[tuple(t["enum"])])
        if k in ("flags", "tick", "tune_param"):
            # the description names the bits / the unit but states no constraint on the integer
            return None
        raise KeyError(k)


def int_value_expr(kind, acc):
    if kind in ("int32", "flags"):
        return acc
    if kind in ("boolean", "enum"):
        return "(%s as i32)" % acc
    if kind in ("tick", "tune_param"):
        return "%s.0" % acc
    raise KeyError(kind)


# --------------------------------------------------------------------------------------------------
# snapshot objects


def object_words(spec, obj, acc_prefix=None):
    """flattened list of (kind, set) for the 32-bit words of an object, super first"""
    out = []
    if "super" in obj:
        out += object_words(spec, spec.objects[tuple(obj["super"])])
    for m in obj["members"]:
        out += type_words(spec, m["type"])
    return out


def type_words(spec, t):
    k = t["kind"]
    if k == "array":
        out = []
        for _ in range(t["count"]):
            out += type_words(spec, t["member_type"])
        return out
    if k == "int32_twstring":
        return [("int32_twstring", None)] * t["count"]
    if k in INT_KINDS:
        return [(k, spec.int_set(t))]
    raise KeyError("member kind %r in a snapshot object" % k)


def gen_object(crate, spec, obj):
    short = crate[0]
    words = object_words(spec, obj)
    n = len(words)
    name = "c14_%s_obj_%s" % (short, snake(obj["name"]))
    ordinal = isinstance(obj["id"], int)
    if ordinal:
        tid = "crate::snap_obj::TypeId::Ordinal(%d)" % obj["id"]
    else:
        tid = "crate::snap_obj::TypeId::Uuid(uuid::Uuid::from_u128(0x%s))" % obj["id"].replace("-", "")
    L = []
    L.append("// %s: snapshot object %s id %s, %d words" % (crate[1], "_".join(obj["name"]), obj["id"], n))
    L.append("#[kani::proof]")
    L.append("#[kani::unwind(4)]")
    L.append("fn %s() {" % name)
    L.append("    let words: [i32; %d] = kani::any();" % (n + 1))
    L.append("    let len: usize = kani::any();")
    L.append("    kani::assume(len >= %d && len <= %d);" % (max(n - 1, 0), n + 1))
    conds = ["len >= %d" % n]
    constrained = 0
    for i, (k, ivs) in enumerate(words):
        if ivs is not None:
            conds.append(in_set_expr(ivs, "words[%d]" % i))
            constrained += 1
    L.append("    let valid = %s;" % " && ".join(conds))
    L.append("    // reachability witnesses sit before the codec calls: a satisfied cover makes CBMC build a full trace up to the cover point")
    L.append("    kani::cover!(valid && len == %d);" % n)
    if constrained:
        L.append("    kani::cover!(!valid && len == %d);" % n)
    L.append("    let mut w = C14Warn::default();")
    L.append("    let mut u = IntUnpacker::new(&words[..len]);")
    L.append("    let r = crate::snap_obj::SnapObj::decode_obj(&mut w, %s, &mut u);" % tid)
    L.append("    match r {")
    L.append("        Ok(ref o) => {")
    L.append("            assert!(valid);")
    L.append("            assert!(w.count == (len > %d) as u32);" % n)
    L.append("            let right_variant = match *o { crate::snap_obj::SnapObj::%s(_) => true, _ => false };" % title(obj["name"]))
    L.append("            assert!(right_variant);")
    L.append("            let e = o.encode();")
    L.append("            assert!(e.len() == %d);" % n)
    if n:
        L.append("            let same_words = match *e { [%s] => %s, _ => false };" % (", ".join("e%d" % i for i in range(n)), " & ".join("(e%d == words[%d])" % (i, i) for i in range(n))))
        L.append("            assert!(same_words);")
    L.append("        }")
    L.append("        Err(_) => {")
    L.append("            assert!(!valid);")
    L.append("        }")
    L.append("    }")
    if ordinal:
        L.append("    assert!(crate::snap_obj::obj_size(%d) == Some(%d));" % (obj["id"], n))
    L.append("}")
    kinds = sorted(set(k for k, _ in words)) + (["super"] if "super" in obj else []) + ([] if ordinal else ["uuid_id"])
    entry = {
        "name": name,
        "package": crate[2],
        "tier": "thorough",
        "mem_gb": 2 if n <= 17 else 6,
        "timeout_s": 400,
        "mount": "gamenet_%s.rs" % short,
        "functions": ["SnapObj::decode_obj", "%s::{decode,decode_inner,encode}" % title(obj["name"]), "SnapObj::encode", "snap_obj::obj_size", "IntUnpacker::{read_int,finish}"],
        "bounds": "all %d-word inputs (every word a full symbolic i32) at lengths %d..=%d; %d constrained words" % (n, max(n - 1, 0), n + 1, constrained),
        "exhaustive": True,
    }
    if "boolean" in kinds:
        # recorded known finding (known_findings.json): boolean members of snapshot objects are Rust
        # `bool`s inside a repr(C) struct that encode() transmutes to [i32]; these harnesses are the
        # witnesses and are expected to fail with exactly the recorded checks
        entry["expect"] = "fail"
    return {"entry": entry, "code": "\n".join(L) + "\n", "kinds": set(kinds), "family": "obj", "shape": "obj", "crate": short, "weight": n}


# --------------------------------------------------------------------------------------------------
# messages


class Slot:
    """one wire unit of a message"""

    def __init__(self, kind, acc, ivs=None, cc=False, optional=False, path=""):
        self.kind = kind
        self.acc = acc
        self.ivs = ivs
        self.cc = cc
        self.optional = optional
        self.path = path


class Unsupported(Exception):
    pass


def flatten_member(spec, t, acc, out, kinds, optional=False, msg_obj=False):
    k = t["kind"]
    kinds.add(k)
    if k == "array":
        for i in range(t["count"]):
            flatten_member(spec, t["member_type"], "%s[%d]" % (acc, i), out, kinds, optional)
    elif k == "optional":
        flatten_member(spec, t["inner"], "%s.unwrap()" % acc, out, kinds, True)
    elif k == "snapshot_object":
        obj = spec.objects[tuple(t["name"])]
        if "super" in obj:
            raise Unsupported("snapshot_object member with a super object")
        for m in obj["members"]:
            flatten_member(spec, m["type"], "%s.%s" % (acc, snake(m["name"])), out, kinds, optional)
    elif k in INT_KINDS:
        out.append(Slot(k, acc, ivs=spec.int_set(t), optional=optional))
    elif k == "string":
        out.append(Slot(k, acc, cc=bool(t["disallow_cc"]), optional=optional))
        if t["disallow_cc"]:
            kinds.add("string_sanitized")
    elif k in ("data", "rest", "uuid", "sha256", "be_uint16", "uint8", "packed_addresses", "serverinfo_client", "int32_string"):
        out.append(Slot(k, acc, optional=optional))
    else:
        raise Unsupported("member kind %r" % k)


FAMILIES = {
    "sys": ("system_messages", "crate::msg::system", "System"),
    "game": ("game_messages", "crate::msg::game", "Game"),
    "connless": ("connless_messages", "crate::msg::connless", "Connless"),
}

STR_LENS = (2, 1, 0)


class MsgGen:
    """Harness text for one message.

    Shape notes (measured on this repository): Kani attaches a reachability check to every assertion
    site and CBMC prints a complete trace for each reachable one, so the harnesses keep the number of
    assertion sites small: field comparisons are folded into one boolean expression, slices are compared
    with slice patterns (no per-index bounds checks) and raw byte runs are placed with copy_from_slice.
    """

    def __init__(self, crate, spec, family, msg):
        self.crate = crate
        self.spec = spec
        self.family = family
        self.msg = msg
        self.short = crate[0]
        self.mod = FAMILIES[family][1]
        self.enum = FAMILIES[family][2]
        self.variant = title(msg["name"])
        self.base = "c14_%s_%s_%s" % (self.short, family, snake(msg["name"]))
        self.kinds = set()
        self.slots = []
        for m in msg["members"]:
            flatten_member(spec, m["type"], "m.%s" % snake(m["name"]), self.slots, self.kinds)
        self.uuid_id = family != "connless" and not isinstance(msg["id"], int)
        if self.uuid_id:
            self.kinds.add("uuid_id")
        if not msg["members"]:
            self.kinds.add("empty")
        for i, s in enumerate(self.slots):
            if s.kind in ("rest", "packed_addresses", "serverinfo_client") and i != len(self.slots) - 1:
                raise Unsupported("rest-like member that is not last")

    # ---- id ----
    def id_segments(self):
        """-> (segments, max bytes); a segment is ("p", [packer statements]) or ("raw", expr, len)"""
        m = self.msg
        if self.family == "connless":
            return [("raw", "[%s]" % ", ".join(str(b) for b in m["id"]), 8)], 8
        flag = 1 if self.family == "sys" else 0
        if isinstance(m["id"], int):
            assert m["id"] > 0
            return [("p", ["p.write_int(%d).unwrap();" % ((m["id"] << 1) | flag)])], 5
        by = self.id_bytes()
        return [("p", ["p.write_int(%d).unwrap();" % flag]), ("raw", "[%s]" % ", ".join(str(b) for b in by), 16)], 5 + 16

    def id_bytes(self):
        hexs = self.msg["id"].replace("-", "")
        return [int(hexs[i:i + 2], 16) for i in range(0, 32, 2)]

    def decode_lines(self):
        """the three lines of glue of System/Game/Connless::decode are replayed here with the real
        SystemOrGame::decode_id and the real dispatch function, to which the id is passed as a literal
        (after asserting that the decoded id equals it): with a literal id the solver explores only the
        decoder of this message instead of all of them (measured: > 6 GB otherwise)"""
        m = self.msg
        if self.family == "connless":
            idl = ", ".join(str(b) for b in m["id"])
            return [
                "let idok = match u.read_raw(8) { Ok(i) => match *i { [%s] => %s, _ => false }, Err(_) => false };" % (", ".join("i%d" % k for k in range(8)), " && ".join("i%d == %d" % (k, b) for k, b in enumerate(m["id"]))),
                "assert!(idok);",
                "let r = %s::%s::decode_connless(&mut w, [%s], &mut u);" % (self.mod, self.enum, idl),
            ]
        sog = "libtw2_gamenet_common::msg::SystemOrGame"
        mid = "libtw2_gamenet_common::msg::MessageId"
        var = "System" if self.family == "sys" else "Game"
        if isinstance(m["id"], int):
            lit = "%s::Ordinal(%d)" % (mid, m["id"])
            chk = "Ok(%s::%s(%s::Ordinal(i))) => i == %d," % (sog, var, mid, m["id"])
        else:
            lit = "%s::Uuid(uuid::Uuid::from_u128(0x%s))" % (mid, m["id"].replace("-", ""))
            chk = "Ok(%s::%s(%s::Uuid(i))) => { let ib = i.as_bytes(); %s }" % (sog, var, mid, " && ".join("ib[%d] == %d" % (k, b) for k, b in enumerate(self.id_bytes())))
        return [
            "let idok = match %s::decode_id(&mut w, &mut u) { %s _ => false };" % (sog, chk),
            "assert!(idok);",
            "let r = %s::%s::decode_msg(&mut w, %s, &mut u);" % (self.mod, self.enum, lit),
        ]

    def encode_lines(self):
        """System/Game/Connless::encode replayed: real id encoder (encode_id / connless_id) with the id
        the real msg_id()/connless_id() reports, then the real encoder of the message struct.  Calling
        encode on the enum makes the solver walk the encoders of every variant (measured: > 6 GB)"""
        m = self.msg
        has_m = bool(m["members"])
        enc = "m.encode(p)" if has_m else "%s::%s.encode(p)" % (self.mod, self.variant)
        if self.family == "connless":
            return [
                "let cid = g.connless_id();",
                "let idok2 = %s;" % " && ".join("cid[%d] == %d" % (k, b) for k, b in enumerate(m["id"])),
                "let bn = with_packer(&mut b[..], |mut p| { p.write_raw(&cid).unwrap(); with_packer(&mut p, |p| %s.map(|_| ())).unwrap(); p.written().len() });" % enc,
            ]
        sog = "libtw2_gamenet_common::msg::SystemOrGame"
        mid = "libtw2_gamenet_common::msg::MessageId"
        var = "System" if self.family == "sys" else "Game"
        if isinstance(m["id"], int):
            lit = "%s::Ordinal(%d)" % (mid, m["id"])
            chk = "%s::Ordinal(i) => i == %d," % (mid, m["id"])
        else:
            lit = "%s::Uuid(uuid::Uuid::from_u128(0x%s))" % (mid, m["id"].replace("-", ""))
            chk = "%s::Uuid(i) => { let ib = i.as_bytes(); %s }" % (mid, " && ".join("ib[%d] == %d" % (k, b) for k, b in enumerate(self.id_bytes())))
        return [
            "let idok2 = match g.msg_id() { %s _ => false };" % chk,
            "let bn = with_packer(&mut b[..], |mut p| { with_packer(&mut p, |p| %s::<%s, %s>::%s(%s).encode_id(p).map(|_| ())).unwrap(); with_packer(&mut p, |p| %s.map(|_| ())).unwrap(); p.written().len() });" % (sog, mid, mid, var, lit, enc),
        ]

    def pattern(self, binding):
        if not self.msg["members"]:
            return "%s::%s::%s(_)" % (self.mod, self.enum, self.variant)
        return "%s::%s::%s(ref %s)" % (self.mod, self.enum, self.variant, binding)

    # ---- values ----
    @staticmethod
    def slice_eq(acc, v, ln):
        """boolean expression: slice `acc` equals the byte array `v` of length ln (slice pattern: one
        length test, no per-index bounds checks)"""
        if ln == 0:
            return "%s.is_empty()" % acc
        return "(match *%s { [%s] => %s, _ => false })" % (acc, ", ".join("x%d" % j for j in range(ln)), " && ".join("x%d == %s[%d]" % (j, v, j) for j in range(ln)))

    def plan_values(self, reject):
        wide = [i for i, s in enumerate(self.slots) if s.kind in INT_KINDS and not is_narrow(s.ivs)]
        # which of the wide members stay unrestricted rotates with the seed
        rot = (SEED[0] + sum(ord(c) for c in self.base)) % len(wide) if wide else 0
        keep_wide = set((wide[rot:] + wide[:rot])[:WIDE_MAX])
        plans = []
        nstr = 0
        narrowed = 0
        for i, s in enumerate(self.slots):
            v = "v%d" % i
            d = {"decl": [], "seg": None, "check": None, "bytes": 0, "unwind": 0, "inset": None, "outset": None}
            if s.kind in INT_KINDS:
                d["decl"].append("let %s: i32 = kani::any();" % v)
                d["inset"] = in_set_expr(s.ivs, v)
                if s.ivs is not None:
                    d["outset"] = "!%s" % in_set_expr(s.ivs, v)
                if i in wide and i not in keep_wide and has_narrow_values(s.ivs):
                    d["decl"].append("kani::assume(%s >= -64 && %s <= 63);" % (v, v))
                    d["bytes"] = 1
                    narrowed += 1
                else:
                    d["bytes"] = 1 if is_narrow(s.ivs) else 5
                if reject and d["outset"] is not None:
                    d["bytes"] = 5
                d["seg"] = ("p", ["p.write_int(%s).unwrap();" % v])
                d["check"] = "%s == %s" % (int_value_expr(s.kind, s.acc), v)
                d["unwind"] = 7
            elif s.kind == "string":
                ln = 1 if reject else STR_LENS[nstr % len(STR_LENS)]
                nstr += 1
                d["decl"].append("let %s: [u8; %d] = kani::any();" % (v, ln))
                if ln:
                    d["decl"].append("kani::assume(%s);" % " && ".join("%s[%d] != 0" % (v, j) for j in range(ln)))
                if s.cc:
                    d["inset"] = "(" + (" && ".join("%s[%d] >= 32" % (v, j) for j in range(ln)) or "true") + ")"
                    if ln:
                        d["outset"] = "!%s" % d["inset"]
                d["seg"] = ("p", ["p.write_string(&%s).unwrap();" % v])
                d["check"] = self.slice_eq(s.acc, v, ln)
                d["bytes"] = ln + 1
                d["unwind"] = ln + 3
            elif s.kind == "data":
                ln = 2
                d["decl"].append("let %s: [u8; %d] = kani::any();" % (v, ln))
                d["seg"] = ("p", ["p.write_data(&%s).unwrap();" % v])
                d["bytes"] = ln + 1
                d["check"] = self.slice_eq(s.acc, v, ln)
                d["unwind"] = 7
            elif s.kind in ("rest", "serverinfo_client", "packed_addresses"):
                ln = 18 if s.kind == "packed_addresses" else 2
                d["decl"].append("let %s: [u8; %d] = kani::any();" % (v, ln))
                d["seg"] = ("raw", v, ln)
                d["bytes"] = ln
                if s.kind == "rest":
                    d["check"] = self.slice_eq(s.acc, v, ln)
                elif s.kind == "serverinfo_client":
                    d["check"] = self.slice_eq("%s.as_bytes()" % s.acc, v, ln)
                else:
                    d["check"] = "%s.len() == 1 && %s" % (s.acc, self.slice_eq("libtw2_gamenet_common::msg::AddrPackedSliceExt::as_bytes(%s)" % s.acc, v, ln))
                d["unwind"] = ln + 3
            elif s.kind in ("uuid", "sha256"):
                ln = 16 if s.kind == "uuid" else 32
                d["decl"].append("let %s: [u8; %d] = kani::any();" % (v, ln))
                d["seg"] = ("raw", v, ln)
                d["bytes"] = ln
                acc = "%s.as_bytes()" % s.acc if s.kind == "uuid" else "(&%s.0)" % s.acc
                d["check"] = "{ let x = %s; %s }" % (acc, " && ".join("x[%d] == %s[%d]" % (j, v, j) for j in range(ln)))
                d["unwind"] = ln + 3
            elif s.kind == "be_uint16":
                d["decl"].append("let %s: u16 = kani::any();" % v)
                d["seg"] = ("raw", "[(%s >> 8) as u8, (%s & 0xff) as u8]" % (v, v), 2)
                d["bytes"] = 2
                d["check"] = "%s == %s" % (s.acc, v)
                d["unwind"] = 5
            elif s.kind == "uint8":
                d["decl"].append("let %s: u8 = kani::any();" % v)
                d["seg"] = ("raw", "[%s]" % v, 1)
                d["bytes"] = 1
                d["check"] = "%s == %s" % (s.acc, v)
                d["unwind"] = 4
            elif s.kind == "int32_string":
                # canonical decimal form of a one-digit integer: the digit itself
                d["decl"].append("let %s: i32 = kani::any();" % v)
                d["decl"].append("kani::assume(%s >= 0 && %s <= 9);" % (v, v))
                d["seg"] = ("p", ["p.write_string(&[b'0' + %s as u8]).unwrap();" % v])
                d["bytes"] = 2
                d["check"] = "%s == %s" % (s.acc, v)
                d["unwind"] = 6
            else:
                raise Unsupported(s.kind)
            plans.append(d)
        return plans, narrowed

    @staticmethod
    def build_lines(segments, n):
        """statements that fill `a` / `an` from the segments"""
        L = ["let mut a = [0u8; %d];" % n, "let mut an = 0usize;"]
        cur = []

        def flush():
            if cur:
                L.append("an += with_packer(&mut a[an..], |mut p| { %s p.written().len() });" % " ".join(cur))
                del cur[:]

        for seg in segments:
            if seg[0] == "p":
                cur.extend(seg[1])
            else:
                flush()
                L.append("a[an..an + %d].copy_from_slice(&%s);" % (seg[2], seg[1]))
                L.append("an += %d;" % seg[2])
        flush()
        return L

    def base_unwind(self):
        # encode_id writes the 16 bytes of a UUID id, Connless::encode the 8 id bytes, through BufferRef::extend
        return max(7, 19 if self.uuid_id else 0, 11 if self.family == "connless" else 0)

    def header(self, name, unwind, what):
        m = self.msg
        return [
            "// %s: %s message %s id %s: %s" % (self.crate[1], self.family, "_".join(m["name"]), m["id"] if self.family != "connless" else bytes(m["id"][4:]).decode(), what),
            "#[kani::proof]",
            "#[kani::unwind(%d)]" % unwind,
            "fn %s() {" % name,
        ]

    def entry(self, name, bounds, mem=6, timeout=600):
        fam = self.enum
        return {
            "name": name,
            "package": self.crate[2],
            "tier": "thorough",
            "mem_gb": mem,
            "timeout_s": timeout,
            "mount": "gamenet_%s.rs" % self.short,
            "functions": ["%s::%s" % (fam, "decode_connless" if self.family == "connless" else "decode_msg"), "%s::{decode,encode}" % self.variant]
            + (["SystemOrGame::{decode_id,encode_id}", "%s::msg_id" % fam] if self.family != "connless" else ["%s::connless_id" % fam, "Unpacker::read_raw"]) + ["libtw2_packer::{Packer,Unpacker,with_packer}"],
            "bounds": bounds,
        }

    WITNESS = "// reachability witness before the codec calls (a satisfied cover makes CBMC print a trace up to that point); from here on every path ends in checked assertions"

    def emit_values(self, L, plans):
        for d in plans:
            for l in d["decl"]:
                L.append("    " + l)
            if d["inset"] is not None and d["inset"] != "true":
                L.append("    kani::assume(%s);" % d["inset"])

    def gen_roundtrip(self):
        name = self.base + "_roundtrip"
        plans, narrowed = self.plan_values(False)
        idseg, idbytes = self.id_segments()
        n = idbytes + sum(d["bytes"] for d in plans)
        unwind = max([self.base_unwind()] + [d["unwind"] for d in plans])
        L = self.header(name, unwind, "canonical bytes -> decode -> fields equal, no warnings -> encode -> same bytes")
        self.emit_values(L, plans)
        L.append("    " + self.WITNESS)
        L.append("    kani::cover!(true);")
        for l in self.build_lines(idseg + [d["seg"] for d in plans], n):
            L.append("    " + l)
        L.append("    let mut w = C14Warn::default();")
        L.append("    let mut u = Unpacker::new(&a[..an]);")
        for l in self.decode_lines():
            L.append("    " + l)
        L.append("    match r {")
        L.append("        Ok(ref g) => {")
        L.append("            match *g {")
        L.append("                %s => {" % self.pattern("m"))
        checks = [d["check"] for d in plans] or ["true"]
        L.append("                    let fields_equal = %s;" % " && ".join(checks))
        L.append("                    assert!(fields_equal);")
        L.append("                    assert!(w.count == 0);")
        L.append("                    let mut b = [0u8; %d];" % n)
        for l in self.encode_lines():
            L.append("                    " + l)
        L.append("                    assert!(idok2);")
        L.append("                    let same_bytes = bn == an && %s;" % " & ".join("(b[%d] == a[%d])" % (i, i) for i in range(n)))
        L.append("                    assert!(same_bytes);")
        L.append("                }")
        L.append("                _ => { assert!(false); }")
        L.append("            }")
        L.append("        }")
        L.append("        Err(_) => { assert!(false); }")
        L.append("    }")
        L.append("}")
        nstr = sum(1 for s in self.slots if s.kind == "string")
        bounds = "%d wire slots; integers symbolic over their whole described set" % len(self.slots)
        if narrowed:
            bounds += " except %d integers restricted to described set /\\ [-64,63] (one-byte varints)" % narrowed
        if nstr:
            bounds += "; %d strings of concrete lengths cycling 2,1,0 with symbolic NUL-free contents (no control characters where forbidden)" % nstr
        if any(s.kind in ("data", "rest", "serverinfo_client") for s in self.slots):
            bounds += "; data/rest payload 2 symbolic bytes"
        if any(s.kind == "packed_addresses" for s in self.slots):
            bounds += "; one packed address (18 symbolic bytes)"
        if any(s.kind == "int32_string" for s in self.slots):
            bounds += "; int32_string members: one decimal digit"
        if any(s.optional for s in self.slots):
            bounds += "; optional members present"
        e = self.entry(name, bounds)
        return {"entry": e, "code": "\n".join(L) + "\n", "kinds": set(self.kinds), "family": self.family, "shape": "roundtrip", "crate": self.short, "weight": len(self.slots) + n}

    def gen_reject(self):
        plans, narrowed = self.plan_values(True)
        cons = [i for i, d in enumerate(plans) if d["outset"] is not None]
        if not cons:
            return None
        name = self.base + "_reject"
        idseg, idbytes = self.id_segments()
        n = idbytes + sum(d["bytes"] for d in plans)
        unwind = max([self.base_unwind()] + [d["unwind"] for d in plans])
        L = self.header(name, unwind, "exactly one constrained member outside its described set -> decode is Err")
        L.append("    let which: usize = kani::any();")
        L.append("    kani::assume(which < %d);" % len(cons))
        for i, d in enumerate(plans):
            for l in d["decl"]:
                if i in cons and "assume(v%d >= -64" % i in l:
                    # the violated member must be free to leave the narrow window
                    L.append("    if which != %d { %s }" % (cons.index(i), l))
                else:
                    L.append("    " + l)
            if i in cons:
                L.append("    kani::assume(if which == %d { %s } else { %s });" % (cons.index(i), d["outset"], d["inset"]))
            elif d["inset"] is not None and d["inset"] != "true":
                L.append("    kani::assume(%s);" % d["inset"])
        L.append("    " + self.WITNESS)
        L.append("    kani::cover!(which == %d);" % (len(cons) - 1))
        for l in self.build_lines(idseg + [d["seg"] for d in plans], n):
            L.append("    " + l)
        L.append("    let mut w = C14Warn::default();")
        L.append("    let mut u = Unpacker::new(&a[..an]);")
        for l in self.decode_lines():
            L.append("    " + l)
        L.append("    let rejected = match r { Ok(_) => false, Err(_) => true };")
        L.append("    assert!(rejected);")
        L.append("}")
        bounds = "%d constrained members of %d wire slots, symbolic choice of the violated one; the violating value is any value outside the described set (integers: any i32 outside; sanitized strings: length 1, any control character 1..=31); strings of length 1" % (len(cons), len(self.slots))
        if narrowed:
            bounds += "; %d unconstrained-width integers restricted to [-64,63]" % narrowed
        e = self.entry(name, bounds)
        return {"entry": e, "code": "\n".join(L) + "\n", "kinds": set(self.kinds), "family": self.family, "shape": "reject", "crate": self.short, "weight": len(self.slots) + n}

    def gen_total(self):
        name = self.base + "_total"
        idseg, idbytes = self.id_segments()
        n = idbytes + TOTAL_TAIL
        unwind = max(TOTAL_TAIL + 3, self.base_unwind())
        L = self.header(name, unwind, "valid id followed by <= %d arbitrary bytes -> decode returns, no panic" % TOTAL_TAIL)
        L.append("    let tail: [u8; %d] = kani::any();" % TOTAL_TAIL)
        L.append("    let n: usize = kani::any();")
        L.append("    kani::assume(n <= %d);" % TOTAL_TAIL)
        L.append("    " + self.WITNESS)
        L.append("    kani::cover!(n == %d);" % TOTAL_TAIL)
        for l in self.build_lines(idseg, n):
            L.append("    " + l)
        L.append("    a[an..an + n].copy_from_slice(&tail[..n]);")
        L.append("    an += n;")
        L.append("    let mut w = C14Warn::default();")
        L.append("    let mut u = Unpacker::new(&a[..an]);")
        for l in self.decode_lines():
            L.append("    " + l)
        L.append("    let right_variant = match r { Ok(ref g) => match *g { %s => true, _ => false }, Err(_) => true };" % self.pattern("_m"))
        L.append("    assert!(right_variant);")
        L.append("}")
        e = self.entry(name, "every byte string of length 0..=%d after the message id" % TOTAL_TAIL, mem=4)
        return {"entry": e, "code": "\n".join(L) + "\n", "kinds": set(self.kinds), "family": self.family, "shape": "total", "crate": self.short, "weight": 10}

    def gen_optabsent(self):
        """trailing optional members left out: decode succeeds without warnings and reports None"""
        opt = [i for i, s in enumerate(self.slots) if s.optional]
        if not opt:
            return None
        first = opt[0]
        if any(not s.optional for s in self.slots[first:]):
            return None
        name = self.base + "_optabsent"
        plans, narrowed = self.plan_values(False)
        plans = plans[:first]
        idseg, idbytes = self.id_segments()
        n = idbytes + sum(d["bytes"] for d in plans)
        unwind = max([self.base_unwind()] + [d["unwind"] for d in plans])
        L = self.header(name, unwind, "trailing optional members absent -> decode Ok, no warnings, members None")
        self.emit_values(L, plans)
        L.append("    " + self.WITNESS)
        L.append("    kani::cover!(true);")
        for l in self.build_lines(idseg + [d["seg"] for d in plans], n):
            L.append("    " + l)
        L.append("    let mut w = C14Warn::default();")
        L.append("    let mut u = Unpacker::new(&a[..an]);")
        for l in self.decode_lines():
            L.append("    " + l)
        checks = [d["check"] for d in plans] + ["%s.is_none()" % s.acc[: -len(".unwrap()")] for s in self.slots[first:]]
        L.append("    let as_described = match r { Ok(ref g) => match *g { %s => %s, _ => false }, Err(_) => false };" % (self.pattern("m"), " && ".join(checks)))
        L.append("    assert!(as_described);")
        L.append("    assert!(w.count == 0);")
        L.append("}")
        e = self.entry(name, "all %d trailing optional members absent; other members as in the roundtrip harness" % (len(self.slots) - first), mem=4)
        return {"entry": e, "code": "\n".join(L) + "\n", "kinds": set(self.kinds), "family": self.family, "shape": "optabsent", "crate": self.short, "weight": len(self.slots) + n}


# --------------------------------------------------------------------------------------------------


def build_all(repo):
    """-> (list of harness records, list of skipped (name, reason))"""
    out = []
    skipped = []
    for crate in CRATES:
        with open(os.path.join(repo, "gamenet", "generate", "spec", crate[1])) as f:
            spec = Spec(json.load(f))
        for obj in spec.j["snapshot_objects"]:
            try:
                out.append(gen_object(crate, spec, obj))
            except (Unsupported, KeyError) as e:
                skipped.append(("c14_%s_obj_%s" % (crate[0], snake(obj["name"])), str(e)))
        for fam in ("sys", "game", "connless"):
            for msg in spec.j[FAMILIES[fam][0]]:
                try:
                    g = MsgGen(crate, spec, fam, msg)
                    recs = [g.gen_roundtrip(), g.gen_reject(), g.gen_total(), g.gen_optabsent()]
                except (Unsupported, KeyError) as e:
                    skipped.append(("c14_%s_%s_%s" % (crate[0], fam, snake(msg["name"])), str(e)))
                    continue
                out += [r for r in recs if r is not None]
    return out, skipped


W_MAX = 38        # heaviest message harness admitted to the quick tier (estimated weight)
W_FILL = 14       # random fill only with light messages
W_OBJ = 17        # snapshot objects up to this weight are all in the quick tier


def choose_quick(recs, seed):
    """quick tier: deterministic coverage targets (every member kind x message family that has a
    harness within the weight budget, every crate x family x shape) filled by a seeded choice among
    the near-lightest candidates, a seeded light random fill, and all light snapshot objects. Kinds
    whose lightest harness is over the budget (array, sha256, tune_param at the time of writing) are
    decided in the thorough tier only; the generation record lists them."""
    rnd = random.Random(seed)
    chosen = []
    names = set()
    uncovered = []

    def take(r):
        if r["entry"]["name"] not in names:
            names.add(r["entry"]["name"])
            chosen.append(r)

    def weight(r):
        return r["weight"]

    def pick(cands):
        cands = [r for r in cands if r["weight"] <= W_MAX]
        if not cands:
            return False
        cands.sort(key=lambda r: (r["weight"], r["entry"]["name"]))
        near = [r for r in cands if r["weight"] <= cands[0]["weight"] + 4][:4]
        take(rnd.choice(near))
        return True

    msgs = sorted([r for r in recs if r["family"] != "obj"], key=lambda r: r["entry"]["name"])
    objs = sorted([r for r in recs if r["family"] == "obj"], key=lambda r: r["entry"]["name"])
    # 1. every member kind that occurs in messages is covered by a roundtrip harness (plus UUID-identified
    #    *system* messages explicitly: their id encoding differs from game messages). Kinds and messages
    #    measured as too heavy for the every-change path are left to the thorough tier.
    msgs_q = [r for r in msgs if not (r["kinds"] & HEAVY_KINDS) and not any(x in r["entry"]["name"] for x in HEAVY_NAMES)]
    targets = [(k, None) for k in sorted(set(k for r in msgs for k in r["kinds"]))] + [("uuid_id", "sys")]
    for k, fam in targets:
        if k in HEAVY_KINDS:
            uncovered.append(k)
            continue
        if any(k in r["kinds"] and (fam is None or r["family"] == fam) and r["shape"] == "roundtrip" for r in chosen):
            continue
        if not pick([r for r in msgs_q if k in r["kinds"] and (fam is None or r["family"] == fam) and r["shape"] == "roundtrip"]):
            uncovered.append("%s%s" % (k, "/" + fam if fam else ""))
    msgs = msgs_q
    # 2. every crate x family present at least once for roundtrip; every crate has reject, total, optabsent
    for crate in CRATES:
        for fam in ("sys", "game", "connless"):
            if not any(r["crate"] == crate[0] and r["family"] == fam for r in chosen):
                pick([r for r in msgs if r["crate"] == crate[0] and r["family"] == fam and r["shape"] == "roundtrip"])
        for shape in ("reject", "total", "optabsent"):
            if not any(r["crate"] == crate[0] and r["shape"] == shape for r in chosen):
                pick([r for r in msgs if r["crate"] == crate[0] and r["shape"] == shape])
    # 3. seeded light random fill up to about 36 message harnesses
    light = [r for r in msgs if r["weight"] <= W_FILL]
    rnd.shuffle(light)
    for r in light:
        if len(chosen) >= 36:
            break
        take(r)
    # 4. snapshot objects: all light ones (they are cheap: every word one symbolic i32)
    for r in objs:
        if r["weight"] <= W_OBJ or r["entry"].get("expect") == "fail":
            take(r)
    QUICK_UNCOVERED[:] = uncovered
    return chosen


QUICK_UNCOVERED = []
# measured (vp check 1 and local runs): > 250 s or > 6 GB
HEAVY_KINDS = {"array", "sha256", "tune_param", "serverinfo_client", "snapshot_object"}
HEAVY_NAMES = ("sys_input", "info_extended", "snap_single", "sv_game_info", "map_change", "sv_vote_option_list_add", "connless_info")


def main():
    repo, hdir, tier, seed, pid = sys.argv[1], sys.argv[2], sys.argv[3], int(sys.argv[4]), sys.argv[5] if len(sys.argv) > 5 else ""
    SEED[0] = seed
    files = {c[0]: ["// generated by harness/gen/gen_gamenet.py from gamenet/generate/spec/%s on this run\n" % c[1]] for c in CRATES}
    entries = []
    if pid == "C14":
        recs, skipped = build_all(repo)
        if tier == "quick":
            sel = choose_quick(recs, seed)
            only = [s for s in os.environ.get("VERIF_C14_ONLY", "").split(",") if s]
            if only:
                sel = [r for r in recs if any(s in r["entry"]["name"] for s in only)]
            for r in sel:
                r["entry"]["tier"] = "quick"
                if r["family"] != "obj" and r["weight"] <= W_FILL:
                    # measured peak RSS of such harnesses: 0.4-1.6 GB
                    r["entry"]["mem_gb"] = 3
        else:
            sel = recs
            for r in sel:
                # measured / estimated as beyond this machine's budget (> 2400 s or > 6 GB): kept, selectable
                # with --tier heavy, not part of the registered thorough tier
                if r["family"] != "obj" and (r["weight"] > 45 or (r["kinds"] & {"tune_param", "sha256"}) or any(x in r["entry"]["name"] for x in HEAVY_NAMES)):
                    r["entry"]["tier"] = "heavy"
                    r["entry"]["mem_gb"] = 16
                    r["entry"]["timeout_s"] = 2400
        for r in sel:
            files[r["crate"]].append(r["code"])
            entries.append(r["entry"])
        with open(os.path.join(hdir, "C14_generation.json"), "w") as f:
            json.dump({"generated_total": len(recs), "emitted": len(sel), "skipped": skipped,
                       "quick_tier_kinds_left_to_thorough": QUICK_UNCOVERED if tier == "quick" else []}, f, indent=1)
    for c in CRATES:
        with open(os.path.join(hdir, "gen_gamenet_%s.rs" % c[0]), "w") as f:
            f.write("\n".join(files[c[0]]))
    with open(os.path.join(hdir, "C14_harnesses.json"), "w") as f:
        json.dump(entries, f, indent=1)


if __name__ == "__main__":
    main()
