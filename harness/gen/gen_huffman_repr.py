#!/usr/bin/env python3
"""Regenerates the documented Huffman code table (huffman/data/repr == appendix of doc/huffman.md)
as Rust constants for the C07 harnesses. argv: repo hdir tier seed"""
import sys, os
repo, hdir = sys.argv[1], sys.argv[2]
lines = open(os.path.join(repo, "huffman", "data", "repr")).read().split("\n")
lines = [l.strip() for l in lines if l.strip() != ""]
assert len(lines) == 257, len(lines)
bits, lens = [], []
for l in lines:
    assert set(l) <= set("01") and 1 <= len(l) <= 24
    v = 0
    for i, c in enumerate(l):
        if c == "1":
            v |= 1 << i
    bits.append(v); lens.append(len(l))
# cross-check with the appendix of doc/huffman.md if it lists the same strings
doc = open(os.path.join(repo, "doc", "huffman.md")).read()
missing = [l for l in lines if l not in doc]
with open(os.path.join(hdir, "gen_huffman_repr.rs"), "w") as f:
    f.write("// generated from huffman/data/repr on this run\n")
    f.write("const DOC_BITS: [u32; 257] = [%s];\n" % ", ".join(str(b) for b in bits))
    f.write("const DOC_LEN: [u8; 257] = [%s];\n" % ", ".join(str(b) for b in lens))
    f.write("#[allow(dead_code)] const DOC_MD_MISSING: usize = %d;\n" % len(missing))
