#!/usr/bin/env python3
"""Instantiates the shared connection-layer harness template for 0.6 and 0.7. argv: repo hdir ..."""
import os, re, sys
hdir = sys.argv[2]
here = os.path.dirname(os.path.abspath(__file__))
tpl = open(os.path.join(here, "..", "templates", "net_conn_common.rs.tpl")).read()
for v in ("06", "07"):
    t = tpl
    if v == "06":
        # states that exist only in the 0.7 handshake
        t = re.sub(r"// __ONLY07_BEGIN__.*?// __ONLY07_END__\n", "", t, flags=re.S)
    else:
        t = re.sub(r"// __ONLY06_BEGIN__.*?// __ONLY06_END__\n", "", t, flags=re.S)
    with open(os.path.join(hdir, "gen_net_conn%s.rs" % v), "w") as f:
        f.write(t.replace("__V__", v))
