#!/usr/bin/env python3
"""Instantiates the shared connection-layer harness template for 0.6 and 0.7. argv: repo hdir ..."""
import os, sys
hdir = sys.argv[2]
here = os.path.dirname(os.path.abspath(__file__))
tpl = open(os.path.join(here, "..", "templates", "net_conn_common.rs.tpl")).read()
for v in ("06", "07"):
    with open(os.path.join(hdir, "gen_net_conn%s.rs" % v), "w") as f:
        f.write(tpl.replace("__V__", v))
