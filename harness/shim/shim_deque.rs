// Fixed-capacity inline models of std's VecDeque and Vec for snapshot/src/storage.rs (C13), mounted
// next to the map model as crate::verif_shim::{VecDeque, SVec} and substituted in the *scratch copy*
// of storage.rs only (runner transform "storage_inline_containers"). Storage then is a plain value
// without heap-backed element storage: CBMC treats heap objects holding structs as byte arrays, which
// made one Storage call exceed 44 GB; exceeding the capacity is outside the bound (assume(false)).

pub const DQ_CAP: usize = 4;

#[derive(Clone)]
pub struct VecDeque<T> {
    len: usize,
    slots: [Option<T>; DQ_CAP],
}

impl<T> Default for VecDeque<T> {
    fn default() -> Self {
        VecDeque { len: 0, slots: [None, None, None, None] }
    }
}

impl<T> VecDeque<T> {
    pub fn new() -> Self {
        Default::default()
    }
    pub fn with_capacity(_: usize) -> Self {
        Default::default()
    }
    pub fn len(&self) -> usize {
        self.len
    }
    pub fn is_empty(&self) -> bool {
        self.len == 0
    }
    /// index 0 is the front
    pub fn front(&self) -> Option<&T> {
        if self.len == 0 {
            None
        } else {
            self.slots[0].as_ref()
        }
    }
    pub fn back(&self) -> Option<&T> {
        if self.len == 0 {
            None
        } else {
            self.slots[self.len - 1].as_ref()
        }
    }
    pub fn get(&self, i: usize) -> Option<&T> {
        if i < self.len {
            self.slots[i].as_ref()
        } else {
            None
        }
    }
    pub fn push_front(&mut self, v: T) {
        if self.len >= DQ_CAP {
            kani::assume(false);
        }
        let mut i = self.len;
        while i > 0 {
            self.slots[i] = self.slots[i - 1].take();
            i -= 1;
        }
        self.slots[0] = Some(v);
        self.len += 1;
    }
    pub fn pop_back(&mut self) -> Option<T> {
        if self.len == 0 {
            None
        } else {
            self.len -= 1;
            self.slots[self.len].take()
        }
    }
    pub fn iter(&self) -> DequeIter<'_, T> {
        DequeIter { d: self, next: 0 }
    }
    /// removes the elements from `range.start` (or 0) to the back and yields them front to back
    pub fn drain<R: core::ops::RangeBounds<usize>>(&mut self, range: R) -> DequeDrain<T> {
        let start = match range.start_bound() {
            core::ops::Bound::Included(&s) => s,
            core::ops::Bound::Excluded(&s) => s + 1,
            core::ops::Bound::Unbounded => 0,
        };
        // storage.rs only drains to the back
        match range.end_bound() {
            core::ops::Bound::Unbounded => {}
            _ => kani::assume(false),
        }
        let mut out = DequeDrain { items: [None, None, None, None], next: 0 };
        let mut i = start;
        let mut k = 0;
        while i < self.len {
            out.items[k] = self.slots[i].take();
            i += 1;
            k += 1;
        }
        if start < self.len {
            self.len = start;
        }
        out
    }
}

pub struct DequeIter<'a, T> {
    d: &'a VecDeque<T>,
    next: usize,
}
impl<'a, T> Iterator for DequeIter<'a, T> {
    type Item = &'a T;
    fn next(&mut self) -> Option<&'a T> {
        if self.next < self.d.len {
            let r = self.d.slots[self.next].as_ref();
            self.next += 1;
            r
        } else {
            None
        }
    }
}

pub struct DequeDrain<T> {
    items: [Option<T>; DQ_CAP],
    next: usize,
}
impl<T> Iterator for DequeDrain<T> {
    type Item = T;
    fn next(&mut self) -> Option<T> {
        if self.next < DQ_CAP {
            let r = self.items[self.next].take();
            self.next += 1;
            r
        } else {
            None
        }
    }
}

#[derive(Clone)]
pub struct SVec<T> {
    len: usize,
    slots: [Option<T>; DQ_CAP],
}
impl<T> Default for SVec<T> {
    fn default() -> Self {
        SVec { len: 0, slots: [None, None, None, None] }
    }
}
impl<T> SVec<T> {
    pub fn new() -> Self {
        Default::default()
    }
    pub fn with_capacity(_: usize) -> Self {
        Default::default()
    }
    pub fn is_empty(&self) -> bool {
        self.len == 0
    }
    pub fn len(&self) -> usize {
        self.len
    }
    pub fn push(&mut self, v: T) {
        if self.len >= DQ_CAP {
            kani::assume(false);
        }
        self.slots[self.len] = Some(v);
        self.len += 1;
    }
    pub fn pop(&mut self) -> Option<T> {
        if self.len == 0 {
            None
        } else {
            self.len -= 1;
            self.slots[self.len].take()
        }
    }
    pub fn last_mut(&mut self) -> Option<&mut T> {
        if self.len == 0 {
            None
        } else {
            self.slots[self.len - 1].as_mut()
        }
    }
}

fn deque_same(m: &VecDeque<u8>, r: &std::collections::VecDeque<u8>) {
    assert!(m.len() == r.len());
    assert!(m.front() == r.front() && m.back() == r.back());
    let mut k = 0;
    let mut it = m.iter();
    while k < 4 {
        assert!(it.next() == r.get(k));
        k += 1;
    }
}

fn deque_script(mask: u8) {
    // bit k of `mask`: operation k is push_front(symbolic byte) (1) or pop_back (0)
    let mut m: VecDeque<u8> = VecDeque::new();
    let mut r: std::collections::VecDeque<u8> = std::collections::VecDeque::with_capacity(4);
    let mut step = 0;
    while step < 3 {
        if (mask >> step) & 1 == 1 {
            let v: u8 = kani::any();
            m.push_front(v);
            r.push_front(v);
        } else {
            assert!(m.pop_back() == r.pop_back());
        }
        deque_same(&m, &r);
        step += 1;
    }
    core::mem::forget(r);
}

#[kani::proof]
#[kani::unwind(10)]
fn c13_deque_model_equiv_push_pop() {
    // the inline model against std's VecDeque on each of the 8 scripts of 3 operations out of
    // {push_front(symbolic byte), pop_back} (the script is enumerated - a symbolic choice of the
    // operation makes std's ring-buffer arithmetic symbolic: > 11 GB -, the bytes are symbolic)
    let mut mask = 0u8;
    while mask < 8 {
        deque_script(mask);
        mask += 1;
    }
}

fn deque_drain_case(i: usize) {
    let vals: [u8; 3] = kani::any();
    let mut m: VecDeque<u8> = VecDeque::new();
    let mut r: std::collections::VecDeque<u8> = std::collections::VecDeque::with_capacity(4);
    let mut k = 0;
    while k < 3 {
        m.push_front(vals[k]);
        r.push_front(vals[k]);
        k += 1;
    }
    {
        let mut dm = m.drain(i..);
        let mut dr = r.drain(i..);
        let mut k = 0;
        while k < 4 {
            assert!(dm.next() == dr.next());
            k += 1;
        }
    }
    deque_same(&m, &r);
    core::mem::forget(r);
}

#[kani::proof]
#[kani::unwind(6)]
fn c13_deque_model_equiv_drain() {
    // drain(i..) of a three-element deque (symbolic bytes) for every start position: same drained
    // elements in the same order, same remainder
    deque_drain_case(0);
    deque_drain_case(1);
    deque_drain_case(2);
    deque_drain_case(3);
}

// --- additions used by net/src/connection{,7}.rs (runner transform "net_inline_resend_queue") ---
impl<T> VecDeque<T> {
    pub fn truncate(&mut self, n: usize) {
        while self.len > n {
            self.len -= 1;
            self.slots[self.len] = None;
        }
    }
    pub fn iter_mut(&mut self) -> DequeIterMut<'_, T> {
        let n = self.len;
        DequeIterMut { slots: self.slots.iter_mut(), left: n }
    }
}
impl<T> core::ops::Index<usize> for VecDeque<T> {
    type Output = T;
    fn index(&self, i: usize) -> &T {
        assert!(i < self.len);
        self.slots[i].as_ref().unwrap()
    }
}
impl<T> core::ops::IndexMut<usize> for VecDeque<T> {
    fn index_mut(&mut self, i: usize) -> &mut T {
        assert!(i < self.len);
        self.slots[i].as_mut().unwrap()
    }
}
pub struct DequeIterMut<'a, T> {
    slots: core::slice::IterMut<'a, Option<T>>,
    left: usize,
}
impl<'a, T> Iterator for DequeIterMut<'a, T> {
    type Item = &'a mut T;
    fn next(&mut self) -> Option<&'a mut T> {
        if self.left == 0 {
            return None;
        }
        self.left -= 1;
        self.slots.next().and_then(|o| o.as_mut())
    }
}
impl<'a, T> IntoIterator for &'a mut VecDeque<T> {
    type Item = &'a mut T;
    type IntoIter = DequeIterMut<'a, T>;
    fn into_iter(self) -> DequeIterMut<'a, T> {
        self.iter_mut()
    }
}
impl<'a, T> IntoIterator for &'a VecDeque<T> {
    type Item = &'a T;
    type IntoIter = DequeIter<'a, T>;
    fn into_iter(self) -> DequeIter<'a, T> {
        self.iter()
    }
}
impl<T: core::fmt::Debug> core::fmt::Debug for VecDeque<T> {
    fn fmt(&self, f: &mut core::fmt::Formatter) -> core::fmt::Result {
        f.write_str("VecDeque(model)")
    }
}
