// Sorted fixed-capacity array model of std::collections::{BTreeMap, BTreeSet} (API subset used by
// snapshot/src/snap.rs). Substituted for the std containers in the *scratch copy* of snap.rs only
// (runner transform "snapshot_btree_shim"); exceeding the capacity is outside the bound
// (kani::assume(false)). Iteration is in key order, like the real containers.

pub const SHIM_CAP: usize = 4;

/// Key comparison of the model. For `Uuid` keys the comparison goes through `as_u128()` instead of
/// the derived byte-array comparison: CBMC's byte-wise memcmp over the slot array made a 22k-step
/// program cost 18 GB in the SAT back end; the order is the same (big-endian bytes).
pub trait ShimKey: Copy {
    fn key_cmp(&self, other: &Self) -> core::cmp::Ordering;
}
impl ShimKey for i32 {
    fn key_cmp(&self, other: &Self) -> core::cmp::Ordering {
        if *self < *other {
            core::cmp::Ordering::Less
        } else if *self > *other {
            core::cmp::Ordering::Greater
        } else {
            core::cmp::Ordering::Equal
        }
    }
}
impl ShimKey for uuid::Uuid {
    fn key_cmp(&self, other: &Self) -> core::cmp::Ordering {
        let a = self.as_u128();
        let b = other.as_u128();
        if a < b {
            core::cmp::Ordering::Less
        } else if a > b {
            core::cmp::Ordering::Greater
        } else {
            core::cmp::Ordering::Equal
        }
    }
}

#[derive(Clone)]
pub struct BTreeMap<K, V> {
    len: usize,
    slots: [Option<(K, V)>; SHIM_CAP],
    /// key of an outstanding VacantEntry (kept here rather than inside the `Entry` enum: a 16-byte
    /// `Uuid` inside that enum made CBMC's union encoding explode)
    pending: Option<K>,
}

impl<K, V> Default for BTreeMap<K, V> {
    fn default() -> Self {
        BTreeMap { len: 0, slots: [None, None, None, None], pending: None }
    }
}

impl<K: ShimKey, V> BTreeMap<K, V> {
    pub fn new() -> Self {
        Default::default()
    }
    pub fn clear(&mut self) {
        let mut i = 0;
        while i < SHIM_CAP {
            self.slots[i] = None;
            i += 1;
        }
        self.len = 0;
    }
    pub fn len(&self) -> usize {
        self.len
    }
    pub fn is_empty(&self) -> bool {
        self.len == 0
    }
    /// index of `k` or the position where it would be inserted
    fn find(&self, k: &K) -> Result<usize, usize> {
        let mut i = 0;
        while i < self.len {
            let (ref kk, _) = *self.slots[i].as_ref().unwrap();
            match kk.key_cmp(k) {
                core::cmp::Ordering::Equal => return Ok(i),
                core::cmp::Ordering::Greater => return Err(i),
                core::cmp::Ordering::Less => {}
            }
            i += 1;
        }
        Err(self.len)
    }
    pub fn get(&self, k: &K) -> Option<&V> {
        match self.find(k) {
            Ok(i) => self.slots[i].as_ref().map(|e| &e.1),
            Err(_) => None,
        }
    }
    pub fn contains_key(&self, k: &K) -> bool {
        self.find(k).is_ok()
    }
    fn insert_at(&mut self, pos: usize, k: K, v: V) {
        if self.len >= SHIM_CAP {
            // outside the bound of the model
            kani::assume(false);
        }
        let mut i = self.len;
        while i > pos {
            self.slots[i] = self.slots[i - 1].take();
            i -= 1;
        }
        self.slots[pos] = Some((k, v));
        self.len += 1;
    }
    pub fn insert(&mut self, k: K, v: V) -> Option<V> {
        match self.find(&k) {
            Ok(i) => {
                let old = self.slots[i].take();
                self.slots[i] = Some((k, v));
                old.map(|e| e.1)
            }
            Err(pos) => {
                self.insert_at(pos, k, v);
                None
            }
        }
    }
    pub fn entry(&mut self, k: K) -> btree_map::Entry<'_, K, V> {
        match self.find(&k) {
            Ok(i) => btree_map::Entry::Occupied(btree_map::OccupiedEntry { map: self, idx: i }),
            Err(pos) => {
                self.pending = Some(k);
                btree_map::Entry::Vacant(btree_map::VacantEntry { map: self, pos: pos })
            }
        }
    }
    pub fn iter(&self) -> btree_map::Iter<'_, K, V> {
        btree_map::Iter { map: self, next: 0 }
    }
    pub fn keys(&self) -> btree_map::Keys<'_, K, V> {
        btree_map::Keys { map: self, next: 0 }
    }
}

impl<'a, K: ShimKey, V> core::ops::Index<&'a K> for BTreeMap<K, V> {
    type Output = V;
    fn index(&self, k: &'a K) -> &V {
        self.get(k).expect("no entry found for key")
    }
}

impl<'a, K: ShimKey, V> IntoIterator for &'a BTreeMap<K, V> {
    type Item = (&'a K, &'a V);
    type IntoIter = btree_map::Iter<'a, K, V>;
    fn into_iter(self) -> btree_map::Iter<'a, K, V> {
        self.iter()
    }
}

pub mod btree_map {
    use super::BTreeMap;
    use super::ShimKey;

    pub enum Entry<'a, K, V> {
        Occupied(OccupiedEntry<'a, K, V>),
        Vacant(VacantEntry<'a, K, V>),
    }
    pub struct OccupiedEntry<'a, K, V> {
        pub(super) map: &'a mut BTreeMap<K, V>,
        pub(super) idx: usize,
    }
    pub struct VacantEntry<'a, K, V> {
        pub(super) map: &'a mut BTreeMap<K, V>,
        pub(super) pos: usize,
    }
    impl<'a, K: ShimKey, V> OccupiedEntry<'a, K, V> {
        pub fn get(&self) -> &V {
            &self.map.slots[self.idx].as_ref().unwrap().1
        }
        pub fn into_mut(self) -> &'a mut V {
            &mut self.map.slots[self.idx].as_mut().unwrap().1
        }
    }
    impl<'a, K: ShimKey, V> VacantEntry<'a, K, V> {
        pub fn insert(self, v: V) -> &'a mut V {
            let pos = self.pos;
            let k = self.map.pending.take().unwrap();
            self.map.insert_at(pos, k, v);
            &mut self.map.slots[pos].as_mut().unwrap().1
        }
    }
    pub struct Iter<'a, K, V> {
        pub(super) map: &'a BTreeMap<K, V>,
        pub(super) next: usize,
    }
    impl<'a, K, V> Iterator for Iter<'a, K, V> {
        type Item = (&'a K, &'a V);
        fn next(&mut self) -> Option<(&'a K, &'a V)> {
            if self.next >= self.map.len {
                return None;
            }
            let e = self.map.slots[self.next].as_ref().unwrap();
            self.next += 1;
            Some((&e.0, &e.1))
        }
        fn size_hint(&self) -> (usize, Option<usize>) {
            let r = self.map.len - self.next;
            (r, Some(r))
        }
    }
    impl<'a, K, V> ExactSizeIterator for Iter<'a, K, V> {
        fn len(&self) -> usize {
            self.map.len - self.next
        }
    }
    pub struct Keys<'a, K, V> {
        pub(super) map: &'a BTreeMap<K, V>,
        pub(super) next: usize,
    }
    impl<'a, K, V> Iterator for Keys<'a, K, V> {
        type Item = &'a K;
        fn next(&mut self) -> Option<&'a K> {
            if self.next >= self.map.len {
                return None;
            }
            let e = self.map.slots[self.next].as_ref().unwrap();
            self.next += 1;
            Some(&e.0)
        }
        fn size_hint(&self) -> (usize, Option<usize>) {
            let r = self.map.len - self.next;
            (r, Some(r))
        }
    }
    impl<'a, K, V> ExactSizeIterator for Keys<'a, K, V> {}
}

#[derive(Clone)]
pub struct BTreeSet<K> {
    map: BTreeMap<K, ()>,
}

impl<K> Default for BTreeSet<K> {
    fn default() -> Self {
        BTreeSet { map: Default::default() }
    }
}

impl<K: ShimKey> BTreeSet<K> {
    pub fn new() -> Self {
        Default::default()
    }
    pub fn clear(&mut self) {
        self.map.clear()
    }
    pub fn len(&self) -> usize {
        self.map.len()
    }
    pub fn contains(&self, k: &K) -> bool {
        self.map.contains_key(k)
    }
    pub fn insert(&mut self, k: K) -> bool {
        self.map.insert(k, ()).is_none()
    }
    pub fn iter(&self) -> btree_map::Keys<'_, K, ()> {
        self.map.keys()
    }
}

impl<'a, K: ShimKey> IntoIterator for &'a BTreeSet<K> {
    type Item = &'a K;
    type IntoIter = btree_map::Keys<'a, K, ()>;
    fn into_iter(self) -> btree_map::Keys<'a, K, ()> {
        self.map.keys()
    }
}

/// model of `slice::sort_unstable_by_key(|&k| k as u32)` (std's sorting networks dominate the
/// symbolic execution otherwise): plain insertion sort by the unsigned key
pub fn sort_keys_unsigned(keys: &mut [i32]) {
    let n = keys.len();
    let mut a = 1;
    while a < n {
        let mut b = a;
        while b > 0 && (keys[b - 1] as u32) > (keys[b] as u32) {
            let t = keys[b];
            keys[b] = keys[b - 1];
            keys[b - 1] = t;
            b -= 1;
        }
        a += 1;
    }
}
