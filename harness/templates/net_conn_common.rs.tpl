// Connection-layer harnesses shared by the 0.6 (connection.rs) and 0.7 (connection7.rs) variants.
// Generated per version by harness/gen/gen_net_conn.py (suffix __V__); the version-specific prelude
// (v_online, v_connection, V_VITAL_LIMIT ...) lives in net_connection.rs / net_connection7.rs.

pub struct VCb {
    pub now: u64,
    pub sends: u32,
    pub last_len: usize,
    pub last: [u8; 24],
    pub max_len: usize,
    pub rand: [[u8; 4]; 3],
    pub rand_calls: usize,
}
impl VCb {
    pub fn new(now: u64) -> VCb {
        VCb { now: now, sends: 0, last_len: 0, last: [0; 24], max_len: 0, rand: kani::any(), rand_calls: 0 }
    }
}
impl Callback for VCb {
    type Error = ();
    fn secure_random(&mut self, buffer: &mut [u8]) {
        let r = self.rand[if self.rand_calls < 3 { self.rand_calls } else { 2 }];
        self.rand_calls += 1;
        let mut i = 0;
        while i < buffer.len() && i < 4 {
            buffer[i] = r[i];
            i += 1;
        }
    }
    fn send(&mut self, buffer: &[u8]) -> Result<(), ()> {
        self.sends += 1;
        self.last_len = buffer.len();
        if buffer.len() > self.max_len {
            self.max_len = buffer.len();
        }
        if buffer.len() >= 1 {
            self.last[0] = buffer[0];
        }
        Ok(())
    }
    fn time(&mut self) -> Timestamp {
        Timestamp::from_usecs_since_epoch(self.now)
    }
}

pub struct VWarn {
    pub token_mismatch: u32,
    pub other: u32,
}
impl Warn<Warning> for VWarn {
    fn warn(&mut self, w: Warning) {
        match w {
            Warning::TokenMismatch => self.token_mismatch += 1,
            _ => self.other += 1,
        }
    }
}

// ---------------------------------------------------------------------------------------------
// C01: sequence arithmetic, complete domain

#[kani::proof]
#[kani::unwind(3)]
fn c01_seq_arith___V__() {
    let a: u16 = kani::any();
    let s: u16 = kani::any();
    kani::assume(a < 1024 && s < 1024);
    let mut acc = Sequence::from_u16(a);
    let r = acc.update(Sequence::from_u16(s));
    // accepted exactly when s is the successor (mod 1024); then the ack advances, else unchanged
    assert!((r == SequenceOrdering::Current) == (s == (a + 1) % 1024));
    assert!(acc.to_u16() == if s == (a + 1) % 1024 { s } else { a });
    let c = Sequence::from_u16(a).compare(Sequence::from_u16(s));
    let d = (s + 1024 - a) % 1024;
    assert!((c == SequenceOrdering::Current) == (d == 0));
    assert!((c == SequenceOrdering::Future) == (0 < d && d < 512));
    let mut n = Sequence::from_u16(a);
    assert!(n.next().to_u16() == (a + 1) % 1024 && n.to_u16() < 1024);
}

// ---------------------------------------------------------------------------------------------
// C01: receiver step - which chunks of a datagram are delivered

fn recv_step___V__<const N: usize>() {
    let data: [u8; N] = kani::any();
    let len: usize = kani::any();
    kani::assume(len <= N);
    let num_chunks: u8 = kani::any();
    let ack0: u16 = kani::any();
    kani::assume(ack0 < 1024);
    let mut online = v_online(ack0, 0);
    let mut w = VWarn { token_mismatch: 0, other: 0 };
    let area = &data[..len];
    let mut rp = ReceivePacket::connected(&mut w, &mut online, num_chunks, area);
    // reference: walk the chunk area with the real chunk iterator, accept vital chunks that continue
    // ack+1, ack+2, ...
    let mut ack = ack0;
    let mut gap = false;
    let mut it = ChunksIter::new(area, num_chunks);
    let mut k = 0;
    while let Some(c) = it.next() {
        let deliver = match c.vital {
            None => true,
            Some((seq, _)) => {
                if seq == (ack + 1) % 1024 {
                    ack = seq;
                    true
                } else {
                    gap = true;
                    false
                }
            }
        };
        if deliver {
            // the lazy delivery iterator yields exactly this chunk next
            match rp.next() {
                Some(ReceiveChunk::Connected(d, vital)) => {
                    assert!(vital == c.vital.is_some());
                    assert!(d.as_ptr() == c.data.as_ptr() && d.len() == c.data.len());
                }
                _ => assert!(false),
            }
        }
        k += 1;
        assert!(k <= N / 2);
    }
    assert!(rp.next().is_none());
    // the eager ack update and the lazy replay agree
    assert!(online.ack.to_u16() == ack);
    assert!(online.request_resend == gap);
    kani::cover!(k == 2 && !gap && ack != ack0);
    kani::cover!(gap);
}

#[kani::proof]
#[kani::unwind(6)]
fn c01_recv_step___V__() {
    recv_step___V__::<7>();
}

// ---------------------------------------------------------------------------------------------
// C01: acknowledgement step

fn resend_chunk___V__(seq: u16, byte: u8) -> ResendChunk {
    let mut data: ArrayVec<[u8; 2048]> = ArrayVec::new();
    data.push(byte);
    ResendChunk { next_send: Timeout::active(Timestamp::from_usecs_since_epoch(kani::any::<u64>() >> 1)), sequence: Sequence::from_u16(seq), data: data }
}

#[kani::proof]
#[kani::unwind(6)]
fn c01_ack_step___V__() {
    // resend queue with three consecutive sequences (newest first), any ack: exactly the entries at
    // or before the acknowledged sequence are dropped, otherwise nothing
    let s0: u16 = kani::any();
    kani::assume(s0 < 1024);
    let mut online = v_online(0, (s0 + 2) % 1024);
    online.resend_queue = VecDeque::with_capacity(4);
    online.resend_queue.push_front(resend_chunk___V__(s0, 10));
    online.resend_queue.push_front(resend_chunk___V__((s0 + 1) % 1024, 11));
    online.resend_queue.push_front(resend_chunk___V__((s0 + 2) % 1024, 12));
    let ack: u16 = kani::any();
    kani::assume(ack < 1024);
    online.ack_chunks(Sequence::from_u16(ack));
    let off = (ack + 1024 - s0) % 1024;
    let expect_left = if off < 3 { 2 - off as usize } else { 3 };
    assert!(online.resend_queue.len() == expect_left);
    // what remains are the newest ones, untouched and in order
    let mut i = 0;
    while i < expect_left {
        assert!(online.resend_queue[i].sequence.to_u16() == (s0 + 2 + 1024 - i as u16) % 1024);
        assert!(online.resend_queue[i].data[0] == 12 - i as u8);
        i += 1;
    }
    kani::cover!(expect_left == 0);
    kani::cover!(expect_left == 3);
    core::mem::forget(online);
}

// ---------------------------------------------------------------------------------------------
// C02 / C04: length arithmetic of the packing rule, all lengths

#[kani::proof]
#[kani::unwind(3)]
fn c04_fit_arith___V__() {
    // can_fit_chunk over every fill and every payload length (no bytes are moved)
    let big = [0u8; 2048];
    let len: usize = kani::any();
    kani::assume(len <= 2048);
    let fill: usize = kani::any();
    kani::assume(fill <= 2048);
    let n: u8 = kani::any();
    let vital: bool = kani::any();
    let mut pc = PacketContents::new();
    unsafe {
        pc.data.set_len(fill);
    }
    pc.num_chunks = n;
    let hdr = if vital { 3 } else { 2 };
    let fits = pc.can_fit_chunk(&big[..len], vital);
    if fits {
        // what fits can be written: the chunk counter has room and the packet stays within a datagram
        assert!(fill + hdr + len <= MAX_PACKETSIZE - protocol::HEADER_SIZE - V_TOKEN_ROOM);
        assert!(n < 255);
    }
    // every payload length send() accepts satisfies the precondition of the chunk writer
    if v_send_accepts(len) {
        assert!(len >> protocol::CHUNK_SIZE_BITS == 0);
    }
    // C02: every payload the layer accepts fits an empty packet (otherwise flush is a no-op and
    // resend can never place the chunk)
    if v_send_accepts(len) {
        let empty = PacketContents::new();
        assert!(empty.can_fit_chunk(&big[..len], vital));
    }
    kani::cover!(fits && n == 254);
    kani::cover!(v_send_accepts(len) && len > 1000);
}

#[kani::proof]
#[kani::unwind(6)]
#[kani::stub(libtw2_huffman::Huffman::compress_impl_unsafe, libtw2_huffman::Huffman::verif_compress_oracle)]
fn c04_send_refuses_too_long___V__() {
    // payload lengths beyond what can be carried are refused with TooLongData and nothing changes;
    // no length anywhere in 0..=2048 panics at the length test
    let big = [0u8; 2048];
    let len: usize = kani::any();
    kani::assume(len <= 2048 && !v_send_accepts(len));
    let mut c = v_connection(kani::any(), kani::any());
    let mut cb = VCb::new(1000);
    let r = c.send(&mut cb, &big[..len], kani::any());
    assert!(matches!(r, Err(Error::TooLongData)));
    assert!(cb.sends == 0);
    let online = c.state.assert_online();
    assert!(online.packet.num_chunks == 0 && online.packet.data.len() == 0 && online.resend_queue.len() == 0);
    core::mem::forget(c);
}

// ---------------------------------------------------------------------------------------------
// C01 / C04: sender step with real byte movement (small payloads)

fn send_step___V__<const L: usize>(vital: bool) {
    let payload: [u8; L] = kani::any();
    let seq0: u16 = kani::any();
    kani::assume(seq0 < 1024);
    let mut c = v_connection(kani::any(), seq0);
    let mut cb = VCb::new(kani::any());
    kani::assume(cb.now < (1u64 << 62));
    let r = c.send(&mut cb, &payload, vital);
    assert!(r.is_ok());
    assert!(cb.sends == 0);
    let online = c.state.assert_online();
    assert!(online.packet.num_chunks == 1);
    // the queued chunk decodes to the same bytes, the next sequence number, resend flag clear
    let mut it = ChunksIter::new(&online.packet.data, 1);
    let ch = it.next().unwrap();
    assert!(ch.data.len() == L);
    let mut i = 0;
    while i < L {
        assert!(ch.data[i] == payload[i]);
        i += 1;
    }
    if vital {
        assert!(ch.vital == Some(((seq0 + 1) % 1024, false)));
        assert!(online.sequence.to_u16() == (seq0 + 1) % 1024);
        assert!(online.resend_queue.len() == 1);
        let rc = &online.resend_queue[0];
        assert!(rc.sequence.to_u16() == (seq0 + 1) % 1024 && rc.data.len() == L);
        let mut i = 0;
        while i < L {
            assert!(rc.data[i] == payload[i]);
            i += 1;
        }
        // retransmit timer armed one second ahead
        assert!(rc.next_send == Timeout::active(Timestamp::from_usecs_since_epoch(cb.now + 1_000_000)));
        assert!(online.packet_nonvital.num_chunks == 0);
    } else {
        assert!(ch.vital.is_none());
        assert!(online.sequence.to_u16() == seq0 && online.resend_queue.len() == 0);
        assert!(online.packet_nonvital.num_chunks == 1 && online.packet_nonvital.data.len() == online.packet.data.len());
    }
    assert!(it.next().is_none());
    core::mem::forget(c);
}

#[kani::proof]
#[kani::unwind(8)]
#[kani::stub(libtw2_huffman::Huffman::compress_impl_unsafe, libtw2_huffman::Huffman::verif_compress_oracle)]
fn c01_send_step_vital_len3___V__() {
    send_step___V__::<3>(true);
}
#[kani::proof]
#[kani::unwind(8)]
#[kani::stub(libtw2_huffman::Huffman::compress_impl_unsafe, libtw2_huffman::Huffman::verif_compress_oracle)]
fn c01_send_step_nonvital_len2___V__() {
    send_step___V__::<2>(false);
}
#[kani::proof]
#[kani::unwind(8)]
#[kani::stub(libtw2_huffman::Huffman::compress_impl_unsafe, libtw2_huffman::Huffman::verif_compress_oracle)]
fn c01_send_step_vital_len0___V__() {
    send_step___V__::<0>(true);
}

// ---------------------------------------------------------------------------------------------
// C02: timers

#[kani::proof]
#[kani::unwind(3)]
fn c02_timeout_order___V__() {
    // 'inactive' is ordered after every instant; min() of two deadlines is the earlier one
    let a: u64 = kani::any();
    let b: u64 = kani::any();
    kani::assume(a != u64::MAX && b != u64::MAX);
    let ta = Timeout::active(Timestamp::from_usecs_since_epoch(a));
    let tb = Timeout::active(Timestamp::from_usecs_since_epoch(b));
    assert!(ta.is_active() && !Timeout::inactive().is_active());
    assert!(cmp::min(ta, Timeout::inactive()) == ta);
    assert!(cmp::min(Timeout::inactive(), tb) == tb);
    assert!(cmp::min(ta, tb) == if a <= b { ta } else { tb });
    assert!(ta.to_opt().map(|t| t.as_usecs_since_epoch()) == Some(a));
}

#[kani::proof]
#[kani::unwind(6)]
fn c02_needs_tick_online___V__() {
    // while anything is unacknowledged the reported deadline is finite and is the earlier of the
    // send timer and the oldest chunk's retransmit timer
    let send_t: u64 = kani::any();
    let rs0: u64 = kani::any();
    let rs1: u64 = kani::any();
    kani::assume(send_t != u64::MAX && rs0 != u64::MAX && rs1 != u64::MAX);
    let mut c = v_connection(0, 2);
    let send_active: bool = kani::any();
    c.send = if send_active { Timeout::active(Timestamp::from_usecs_since_epoch(send_t)) } else { Timeout::inactive() };
    {
        let online = c.state.assert_online();
        online.resend_queue = VecDeque::with_capacity(4);
        let mut older = resend_chunk___V__(1, 1);
        older.next_send = Timeout::active(Timestamp::from_usecs_since_epoch(rs0));
        let mut newer = resend_chunk___V__(2, 2);
        newer.next_send = Timeout::active(Timestamp::from_usecs_since_epoch(rs1));
        online.resend_queue.push_front(older);
        online.resend_queue.push_front(newer);
    }
    let nt = c.needs_tick();
    assert!(nt.is_active());
    let expect = if send_active && send_t < rs0 { send_t } else { rs0 };
    assert!(nt == Timeout::active(Timestamp::from_usecs_since_epoch(expect)));
    core::mem::forget(c);
}

#[kani::proof]
#[kani::unwind(6)]
#[kani::stub(libtw2_huffman::Huffman::compress_impl_unsafe, libtw2_huffman::Huffman::verif_compress_oracle)]
fn c02_resend_rearms___V__() {
    // one unacknowledged chunk: resend() (what tick() calls once the oldest retransmit deadline has
    // passed) returns, queues the chunk again with the resend flag and its original sequence and
    // re-arms its timer one second ahead of any clock value
    let now: u64 = kani::any();
    kani::assume(now < (1u64 << 62));
    let mut c = v_connection(kani::any(), 1);
    {
        let online = c.state.assert_online();
        online.resend_queue = VecDeque::with_capacity(4);
        online.resend_queue.push_front(resend_chunk___V__(1, 0x55));
    }
    let mut cb = VCb::new(now);
    let r = c.resend(&mut cb);
    assert!(r.is_ok());
    let online = c.state.assert_online();
    assert!(online.resend_queue.len() == 1);
    assert!(online.resend_queue[0].next_send == Timeout::active(Timestamp::from_usecs_since_epoch(now + 1_000_000)));
    assert!(online.packet.num_chunks == 1);
    let mut it = ChunksIter::new(&online.packet.data, 1);
    let ch = it.next().unwrap();
    assert!(ch.vital == Some((1, true)) && ch.data.len() == 1 && ch.data[0] == 0x55);
    core::mem::forget(c);
}

#[kani::proof]
#[kani::unwind(6)]
fn c02_tick_decision___V__() {
    // the retransmit decision of tick(): a deadline has triggered exactly when it is active and not
    // later than the clock; has_triggered_edge disarms the timer exactly then
    let now: u64 = kani::any();
    let dl: u64 = kani::any();
    kani::assume(dl != u64::MAX);
    let mut cb = VCb::new(now);
    let t = Timeout::active(Timestamp::from_usecs_since_epoch(dl));
    assert!(t.has_triggered_level(&mut cb) == (dl <= now));
    assert!(!Timeout::inactive().has_triggered_level(&mut cb));
    let mut t2 = t;
    let e = t2.has_triggered_edge(&mut cb);
    assert!(e == (dl <= now));
    assert!(t2.is_active() == !e);
    // arming: strictly in the future for every clock value that does not overflow
    if now < u64::MAX - 1_000_000 {
        let mut t3 = Timeout::inactive();
        t3.set(&mut cb, Duration::from_millis(500));
        assert!(t3 == Timeout::active(Timestamp::from_usecs_since_epoch(now + 500_000)));
    }
}

// ---------------------------------------------------------------------------------------------
// C03: datagrams without the agreed token are inert (feed-level, parser stub per packet kind)

/// Recording stand-in for OnlineState::ack_chunks in the feed-level harnesses: acknowledgement
/// processing is the only way the `ack` field of a datagram acts on the endpoint, and what it does to
/// the resend queue is decided by c01_ack_step; here only *whether* it runs matters (a resend queue
/// with a real 2 KiB chunk in the pre-state made these harnesses exceed 10 GB).
pub static mut VERIF_ACK_CALLS___V__: u32 = 0;
impl OnlineState {
    fn verif_ack_chunks_record___V__(&mut self, _ack: Sequence) {
        unsafe {
            VERIF_ACK_CALLS___V__ += 1;
        }
    }
}

fn snapshot_state___V__(c: &Connection) -> (u8, u16, u16, bool, u8, usize, u8, usize, usize, Timeout) {
    match c.state {
        State::Online(ref o) => (3, o.ack.to_u16(), o.sequence.to_u16(), o.request_resend, o.packet.num_chunks, o.packet.data.len(), o.packet_nonvital.num_chunks, o.packet_nonvital.data.len(), o.resend_queue.len(), c.send),
        State::Unconnected => (0, 0, 0, false, 0, 0, 0, 0, 0, c.send),
        State::Disconnected => (9, 0, 0, false, 0, 0, 0, 0, 0, c.send),
        _ => (5, 0, 0, false, 0, 0, 0, 0, 0, c.send),
    }
}

fn token_inert_online___V__(kind: u8) {
    // Online state with an agreed token, one unacknowledged chunk; the datagram parses (parser stub)
    // to packet kind `kind` with symbolic token, ack, flags and the input bytes as payload.
    protocol::Packet::verif_set_kind(kind);
    let mut c = v_connection(kani::any(), 5);
    c.send = Timeout::active(Timestamp::from_usecs_since_epoch(kani::any::<u64>() >> 1));
    let expected = v_expected_token(&c);
    let before = snapshot_state___V__(&c);
    let data: [u8; 4] = kani::any();
    let mut scratch = [0u8; 16];
    let mut cb = VCb::new(kani::any::<u64>() >> 2);
    let mut w = VWarn { token_mismatch: 0, other: 0 };
    let carried;
    let events;
    {
        let (rp, res) = c.feed(&mut cb, &mut w, &data, &mut scratch[..]);
        carried = protocol::Packet::verif_last_token();
        events = !matches!(rp.type_, ReceivePacketType::None);
        let _ = res;
    }
    if carried != expected {
        // no event, no outgoing datagram, state unchanged, mismatch reported
        assert!(!events);
        assert!(cb.sends == 0);
        assert!(w.token_mismatch == 1);
        assert!(snapshot_state___V__(&c) == before);
        // ... and its ack field is not processed either
        assert!(unsafe { VERIF_ACK_CALLS___V__ } == 0);
        kani::cover!(true, "token mismatch path");
    } else {
        kani::cover!(true, "token match path");
    }
    core::mem::forget(c);
}

#[kani::proof]
#[kani::unwind(8)]
#[kani::stub(libtw2_huffman::Huffman::compress_impl_unsafe, libtw2_huffman::Huffman::verif_compress_oracle)]
#[kani::stub(libtw2_huffman::Huffman::decompress_unsafe, libtw2_huffman::Huffman::verif_decompress_oracle)]
#[kani::stub(protocol::Packet::read, protocol::Packet::verif_read_stub)]
#[kani::stub(OnlineState::ack_chunks, OnlineState::verif_ack_chunks_record___V__)]
fn c03_token_inert_online_keepalive___V__() {
    token_inert_online___V__(0);
}
#[kani::proof]
#[kani::unwind(8)]
#[kani::stub(libtw2_huffman::Huffman::compress_impl_unsafe, libtw2_huffman::Huffman::verif_compress_oracle)]
#[kani::stub(libtw2_huffman::Huffman::decompress_unsafe, libtw2_huffman::Huffman::verif_decompress_oracle)]
#[kani::stub(protocol::Packet::read, protocol::Packet::verif_read_stub)]
#[kani::stub(OnlineState::ack_chunks, OnlineState::verif_ack_chunks_record___V__)]
fn c03_token_inert_online_close___V__() {
    token_inert_online___V__(1);
}
#[kani::proof]
#[kani::unwind(8)]
#[kani::stub(libtw2_huffman::Huffman::compress_impl_unsafe, libtw2_huffman::Huffman::verif_compress_oracle)]
#[kani::stub(libtw2_huffman::Huffman::decompress_unsafe, libtw2_huffman::Huffman::verif_decompress_oracle)]
#[kani::stub(protocol::Packet::read, protocol::Packet::verif_read_stub)]
#[kani::stub(OnlineState::ack_chunks, OnlineState::verif_ack_chunks_record___V__)]
fn c03_token_inert_online_chunks___V__() {
    token_inert_online___V__(2);
}
#[kani::proof]
#[kani::unwind(8)]
#[kani::stub(libtw2_huffman::Huffman::compress_impl_unsafe, libtw2_huffman::Huffman::verif_compress_oracle)]
#[kani::stub(libtw2_huffman::Huffman::decompress_unsafe, libtw2_huffman::Huffman::verif_decompress_oracle)]
#[kani::stub(protocol::Packet::read, protocol::Packet::verif_read_stub)]
#[kani::stub(OnlineState::ack_chunks, OnlineState::verif_ack_chunks_record___V__)]
fn c03_token_inert_online_connect___V__() {
    token_inert_online___V__(3);
}

#[kani::proof]
#[kani::unwind(6)]
fn c03_token_random___V__() {
    // tokens handed out are never a reserved value, whatever the random source returns (<= 3 draws)
    let mut cb = VCb::new(0);
    kani::assume(v_token_ok(cb.rand[0]) || v_token_ok(cb.rand[1]) || v_token_ok(cb.rand[2]));
    let t = Token::random(|b| cb.secure_random(b));
    assert!(v_token_ok(t.0));
    assert!(cb.rand_calls >= 1 && cb.rand_calls <= 3);
    kani::cover!(cb.rand_calls == 3);
}

// ---------------------------------------------------------------------------------------------
// C02 / C04: the packing loop of resend() over the whole range of accepted chunk lengths.
// Payload movement is replaced by length-only contract stand-ins (DESIGN.md section 3.1 rule 4):
// write_chunk asserts its callee's precondition and performs the same counter/length updates
// without copying; PacketBuilder::send records the chunk-area length instead of serialising it.

pub static mut VERIF_MAX_AREA___V__: usize = 0;
pub static mut VERIF_SENDS___V__: u32 = 0;

impl PacketContents {
    fn verif_write_chunk_len_only___V__(&mut self, data: &[u8], vital: Option<(u16, bool)>) {
        // preconditions of protocol::write_chunk_impl and of the ArrayVec write
        assert!(data.len() >> protocol::CHUNK_SIZE_BITS == 0);
        let hdr = if vital.is_some() { 3 } else { 2 };
        assert!(self.data.len() + hdr + data.len() <= 2048);
        unsafe {
            let l = self.data.len();
            self.data.set_len(l + hdr + data.len());
        }
        self.num_chunks += 1;
    }
}

impl PacketBuilder {
    fn verif_send_len_only___V__<CB: Callback>(&mut self, cb: &mut CB, packet: Packet) -> Result<(), Error<CB::Error>> {
        let area = match packet {
            Packet::Connected(ConnectedPacket { type_: ConnectedPacketType::Chunks(_, _, payload), .. }) => payload.len(),
            _ => 0,
        };
        unsafe {
            VERIF_SENDS___V__ += 1;
            if area > VERIF_MAX_AREA___V__ {
                VERIF_MAX_AREA___V__ = area;
            }
        }
        let one = [0u8; 1];
        cb.send(&one)?;
        Ok(())
    }
}

fn len_only_chunk___V__(seq: u16, len: usize) -> ResendChunk {
    let mut data: ArrayVec<[u8; 2048]> = ArrayVec::new();
    unsafe {
        data.set_len(len);
    }
    ResendChunk { next_send: Timeout::active(Timestamp::from_usecs_since_epoch(1)), sequence: Sequence::from_u16(seq), data: data }
}

#[kani::proof]
#[kani::unwind(8)]
#[kani::stub(PacketContents::write_chunk, PacketContents::verif_write_chunk_len_only___V__)]
#[kani::stub(PacketBuilder::send, PacketBuilder::verif_send_len_only___V__)]
fn c04_resend_packing___V__() {
    // two unacknowledged chunks of any accepted lengths plus any amount of retained non-vital data:
    // resend() terminates (unwinding assertion), never queues more than a datagram can carry, and
    // every datagram it flushes stays within the room behind the packet header (and token)
    let big = [0u8; 1];
    let _ = big;
    let l0: usize = kani::any();
    let l1: usize = kani::any();
    kani::assume(v_send_accepts(l0) && v_send_accepts(l1));
    // retained non-vital part: 0 or 2 empty chunks (its clone is a byte loop, so its size is concrete)
    let with_nv: bool = kani::any();
    let nv_fill: usize = if with_nv { 4 } else { 0 };
    let nv_chunks: u8 = if with_nv { 2 } else { 0 };
    let room = MAX_PACKETSIZE - protocol::HEADER_SIZE - V_TOKEN_ROOM;
    // the retained non-vital part was admitted by can_fit_chunk: at least 2 bytes per chunk
    kani::assume(nv_fill <= room && (nv_chunks as usize) * 2 <= nv_fill && (nv_fill == 0) == (nv_chunks == 0));
    let mut c = v_connection(kani::any(), 2);
    {
        let online = c.state.assert_online();
        unsafe {
            online.packet_nonvital.data.set_len(nv_fill);
        }
        online.packet_nonvital.num_chunks = nv_chunks;
        kani::assume(PacketContents::new().can_fit_chunk(&[0u8; 0], false) || true);
        online.resend_queue = VecDeque::with_capacity(4);
        online.resend_queue.push_front(len_only_chunk___V__(1, l0));
        online.resend_queue.push_front(len_only_chunk___V__(2, l1));
    }
    // the non-vital part itself was admitted under the packing rule
    kani::assume(nv_fill <= v_fit_limit() && nv_chunks < 255);
    let mut cb = VCb::new(1000);
    let r = c.resend(&mut cb);
    assert!(r.is_ok());
    let online = c.state.assert_online();
    let max_area = unsafe { VERIF_MAX_AREA___V__ };
    assert!(max_area <= room);
    assert!(online.packet.data.len() <= room);
    assert!(online.resend_queue.len() == 2);
    kani::cover!(unsafe { VERIF_SENDS___V__ } >= 1);
    kani::cover!(unsafe { VERIF_SENDS___V__ } == 0);
    kani::cover!(online.packet.data.len() + 3 >= v_fit_limit());
    core::mem::forget(c);
}

// ---------------------------------------------------------------------------------------------
// C01 / C03: one feed() from every connection state x every parsed packet kind (parser stand-in per
// kind with symbolic token, ack, flags; codec oracle). Decides, per (state, kind):
//  * C03: if the state has fixed a token and the datagram does not carry exactly it (modulo the one
//    documented 0.7 exception), there is no event, no outgoing datagram, a TokenMismatch warning and the
//    state summary (state kind, tokens, ack, sequence, queues, send timer) is unchanged;
//  * C01: `Ready` is produced only by the transition Connecting -> Online on the peer's answer, so at
//    most once per connection and never before the accepting side has answered; `Disconnect` only for
//    a Close; every transition is one of the documented handshake edges.

fn event_code___V__(rp: &ReceivePacket) -> u8 {
    match rp.type_ {
        ReceivePacketType::None => 0,
        ReceivePacketType::Connless(_) => 1,
        ReceivePacketType::Connected(_) => 2,
        ReceivePacketType::Ready(_) => 3,
        ReceivePacketType::Close(_) => 4,
    }
}

fn feed_step___V__(state_kind: u8, pkt_kind: u8) {
    protocol::Packet::verif_set_kind(pkt_kind);
    let mut c = v_state(state_kind);
    // variants of one state kind (0.6: 7 = Online without token)
    let state_kind = v_state_kind(&c);
    // representation invariant of the pre-state: the states that retransmit keep the send timer armed
    // (established by connect/tick_action/new_accept_token, re-checked as post-condition below)
    let send_active: bool = v_timer_state(state_kind);
    c.send = if send_active { Timeout::active(Timestamp::from_usecs_since_epoch(kani::any::<u64>() >> 1)) } else { Timeout::inactive() };
    let before = snapshot_state___V__(&c);
    let before_tokens = v_tokens(&c);
    let data: [u8; 3] = kani::any();
    let mut scratch = [0u8; 16];
    let mut cb = VCb::new(kani::any::<u64>() >> 2);
    // the acceptor's token minting loop (Token::random) is the subject of c03_token_random: here the
    // first draw is usable, so the loop runs once
    kani::assume(v_token_ok(cb.rand[0]));
    let mut w = VWarn { token_mismatch: 0, other: 0 };
    let carried;
    let ev;
    {
        let (rp, _res) = c.feed(&mut cb, &mut w, &data, &mut scratch[..]);
        carried = protocol::Packet::verif_last_token();
        ev = event_code___V__(&rp);
    }
    let after_kind = v_state_kind(&c);
    let inert_expected = match v_required_token(state_kind, before_tokens, pkt_kind, carried) {
        Some(t) => t != carried,
        None => false,
    };
    if inert_expected {
        assert!(ev == 0);
        assert!(cb.sends == 0);
        assert!(w.token_mismatch == 1);
        assert!(after_kind == state_kind);
        assert!(snapshot_state___V__(&c) == before);
        assert!(v_tokens(&c) == before_tokens);
        assert!(unsafe { VERIF_ACK_CALLS___V__ } == 0);
        kani::cover!(true, "inert: token mismatch");
    } else {
        kani::cover!(true, "token accepted or no token fixed");
    }
    // C01: ready exactly on Connecting -> Online by the peer's answer
    if ev == 3 {
        assert!(state_kind == 1 && pkt_kind == v_ready_kind() && after_kind == 3);
    }
    if state_kind == 1 && after_kind == 3 {
        assert!(ev == 3);
    }
    if ev == 4 {
        assert!(pkt_kind == 1 && after_kind == 4);
    }
    if ev == 2 {
        assert!(pkt_kind == 2 && after_kind == 3 && (state_kind == 3 || state_kind == 2));
    }
    assert!(ev != 1);
    // every state change is a documented edge
    assert!(after_kind == state_kind || v_edge(state_kind, pkt_kind, after_kind));
    // nothing is ever sent from a closed / unconnected-and-staying-so endpoint
    if after_kind == 0 || (after_kind == 4 && state_kind == 4) {
        assert!(cb.sends == 0);
    }
    // C02: a live handshake / online state keeps its send timer armed
    if v_timer_state(after_kind) {
        assert!(c.send.is_active());
    }
    kani::cover!(after_kind != state_kind, "state changed");
    core::mem::forget(c);
}

// ---------------------------------------------------------------------------------------------
// C02: one tick() from a symbolic clock/deadline state. Invariant: the states that retransmit keep
// the send timer armed (so needs_tick() is finite while anything is pending), and what is due is
// acted upon.

#[kani::proof]
#[kani::unwind(8)]
#[kani::stub(libtw2_huffman::Huffman::compress_impl_unsafe, libtw2_huffman::Huffman::verif_compress_oracle)]
fn c02_tick_step_online___V__() {
    let now: u64 = kani::any();
    kani::assume(now < (1u64 << 62));
    let send_dl: u64 = kani::any::<u64>() >> 1;
    let chunk_dl: u64 = kani::any::<u64>() >> 1;
    let mut c = v_connection(kani::any(), 1);
    c.send = Timeout::active(Timestamp::from_usecs_since_epoch(send_dl));
    {
        let online = c.state.assert_online();
        online.resend_queue = VecDeque::with_capacity(2);
        let mut rc = resend_chunk___V__(1, 0x55);
        rc.next_send = Timeout::active(Timestamp::from_usecs_since_epoch(chunk_dl));
        online.resend_queue.push_front(rc);
    }
    let mut cb = VCb::new(now);
    let r = c.tick(&mut cb);
    assert!(r.is_ok());
    // the send timer stays armed and the chunk keeps a retransmit deadline: the reported deadline is finite
    assert!(c.send.is_active());
    assert!(c.needs_tick().is_active());
    let send_after = c.send;
    let online = c.state.assert_online();
    assert!(online.resend_queue.len() == 1);
    assert!(online.resend_queue[0].next_send.is_active());
    if chunk_dl <= now {
        // retransmission due: the chunk is queued again (resend flag, own sequence), its deadline moves
        // one second ahead, and the rebuilt packet goes out now or at the still pending send deadline
        assert!(online.resend_queue[0].next_send == Timeout::active(Timestamp::from_usecs_since_epoch(now + 1_000_000)));
        assert!(online.packet.num_chunks == 1 || cb.sends >= 1);
        assert!(cb.sends >= 1 || send_after == Timeout::active(Timestamp::from_usecs_since_epoch(send_dl)));
        kani::cover!(send_dl <= now, "both deadlines due on the same tick");
    } else if send_dl <= now {
        // keep-alive / flush due: exactly one datagram, timer re-armed 500 ms ahead
        assert!(cb.sends == 1);
        assert!(send_after == Timeout::active(Timestamp::from_usecs_since_epoch(now + 500_000)));
        kani::cover!(true, "send deadline due");
    } else {
        assert!(cb.sends == 0);
        assert!(send_after == Timeout::active(Timestamp::from_usecs_since_epoch(send_dl)));
        kani::cover!(true, "nothing due");
    }
    core::mem::forget(c);
}

// tick()'s dispatch with its two callees replaced by recording stand-ins (resend() with a real 2 KiB
// chunk is what makes c02_tick_step_online need > 16 GB; what the callees do is decided by
// c02_resend_rearms / c02_tick_step_<handshake state> / c04_resend_packing)
pub static mut VERIF_RESEND_CALLS___V__: u32 = 0;
pub static mut VERIF_TICK_ACTION_CALLS___V__: u32 = 0;
impl Connection {
    fn verif_resend_record___V__<CB: Callback>(&mut self, _cb: &mut CB) -> Result<(), CB::Error> {
        unsafe {
            VERIF_RESEND_CALLS___V__ += 1;
        }
        Ok(())
    }
    fn verif_tick_action_record___V__<CB: Callback>(&mut self, _cb: &mut CB) -> Result<(), CB::Error> {
        unsafe {
            VERIF_TICK_ACTION_CALLS___V__ += 1;
        }
        Ok(())
    }
}

#[kani::proof]
#[kani::unwind(6)]
#[kani::stub(Connection::resend, Connection::verif_resend_record___V__)]
#[kani::stub(Connection::tick_action, Connection::verif_tick_action_record___V__)]
fn c02_tick_dispatch_online___V__() {
    // Online, one unacknowledged chunk, symbolic clock and both deadlines: a due retransmission runs
    // resend() and leaves the send timer as it was (still pending, so that the rebuilt packet goes out
    // at that deadline); otherwise a due send deadline is consumed and tick_action() runs (it re-arms
    // the timer); otherwise nothing happens
    let now: u64 = kani::any();
    let send_dl: u64 = kani::any::<u64>() >> 1;
    let chunk_dl: u64 = kani::any::<u64>() >> 1;
    let mut c = v_connection(kani::any(), 1);
    c.send = Timeout::active(Timestamp::from_usecs_since_epoch(send_dl));
    {
        let online = c.state.assert_online();
        online.resend_queue = VecDeque::with_capacity(2);
        let mut rc = resend_chunk___V__(1, 0x55);
        rc.next_send = Timeout::active(Timestamp::from_usecs_since_epoch(chunk_dl));
        online.resend_queue.push_front(rc);
    }
    let mut cb = VCb::new(now);
    let r = c.tick(&mut cb);
    assert!(r.is_ok());
    let (resends, actions) = unsafe { (VERIF_RESEND_CALLS___V__, VERIF_TICK_ACTION_CALLS___V__) };
    if chunk_dl <= now {
        assert!(resends == 1 && actions == 0);
        assert!(c.send == Timeout::active(Timestamp::from_usecs_since_epoch(send_dl)));
        kani::cover!(send_dl <= now, "both deadlines due on the same tick");
    } else if send_dl <= now {
        assert!(resends == 0 && actions == 1);
        assert!(!c.send.is_active());
        kani::cover!(true, "send deadline due");
    } else {
        assert!(resends == 0 && actions == 0);
        assert!(c.send == Timeout::active(Timestamp::from_usecs_since_epoch(send_dl)));
        kani::cover!(true, "nothing due");
    }
    assert!(cb.sends == 0);
    core::mem::forget(c);
}

fn tick_step_handshake___V__(state_kind: u8) {
    let now: u64 = kani::any();
    kani::assume(now < (1u64 << 62));
    let send_dl: u64 = kani::any::<u64>() >> 1;
    let mut c = v_state(state_kind);
    c.send = Timeout::active(Timestamp::from_usecs_since_epoch(send_dl));
    let mut cb = VCb::new(now);
    let r = c.tick(&mut cb);
    assert!(r.is_ok());
    assert!(v_state_kind(&c) == state_kind);
    assert!(c.send.is_active() && c.needs_tick().is_active());
    if send_dl <= now {
        // the handshake message of this state is repeated, next repetition 500 ms ahead
        assert!(cb.sends == 1);
        assert!(c.send == Timeout::active(Timestamp::from_usecs_since_epoch(now + 500_000)));
        kani::cover!(true, "handshake retransmission");
    } else {
        assert!(cb.sends == 0);
        assert!(c.needs_tick() == Timeout::active(Timestamp::from_usecs_since_epoch(send_dl)));
        kani::cover!(true, "not due");
    }
    core::mem::forget(c);
}

#[kani::proof]
#[kani::unwind(8)]
#[kani::stub(libtw2_huffman::Huffman::compress_impl_unsafe, libtw2_huffman::Huffman::verif_compress_oracle)]
fn c02_tick_step_connecting___V__() {
    tick_step_handshake___V__(1);
}

#[kani::proof]
#[kani::unwind(8)]
#[kani::stub(libtw2_huffman::Huffman::compress_impl_unsafe, libtw2_huffman::Huffman::verif_compress_oracle)]
fn c02_tick_step_pending___V__() {
    tick_step_handshake___V__(2);
}

// ---------------------------------------------------------------------------------------------
// C04: disconnect() in every state that permits it (every state but Disconnected; Net::reject calls
// it on a still unconnected connection): no panic, exactly one well-sized datagram, closed afterwards

fn disconnect_step___V__(state_kind: u8) {
    let mut c = v_state(state_kind);
    if v_timer_state(state_kind) {
        c.send = Timeout::active(Timestamp::from_usecs_since_epoch(kani::any::<u64>() >> 1));
    }
    let reason: [u8; 2] = kani::any();
    // documented precondition (assert!): NUL-free reason
    kani::assume(reason[0] != 0 && reason[1] != 0);
    let mut cb = VCb::new(kani::any::<u64>() >> 2);
    let r = c.disconnect(&mut cb, &reason);
    assert!(r.is_ok());
    assert!(cb.sends == 1);
    assert!(cb.max_len <= MAX_PACKETSIZE);
    assert!(v_state_kind(&c) == 4);
    assert!(!c.needs_tick().is_active());
    core::mem::forget(c);
}

#[kani::proof]
#[kani::unwind(8)]
#[kani::stub(libtw2_huffman::Huffman::compress_impl_unsafe, libtw2_huffman::Huffman::verif_compress_oracle)]
fn c04_disconnect_step_unconnected___V__() {
    disconnect_step___V__(0);
}
#[kani::proof]
#[kani::unwind(8)]
#[kani::stub(libtw2_huffman::Huffman::compress_impl_unsafe, libtw2_huffman::Huffman::verif_compress_oracle)]
fn c04_disconnect_step_connecting___V__() {
    disconnect_step___V__(1);
}
#[kani::proof]
#[kani::unwind(8)]
#[kani::stub(libtw2_huffman::Huffman::compress_impl_unsafe, libtw2_huffman::Huffman::verif_compress_oracle)]
fn c04_disconnect_step_pending___V__() {
    disconnect_step___V__(2);
}
#[kani::proof]
#[kani::unwind(8)]
#[kani::stub(libtw2_huffman::Huffman::compress_impl_unsafe, libtw2_huffman::Huffman::verif_compress_oracle)]
fn c04_disconnect_step_online___V__() {
    disconnect_step___V__(3);
}

// instances: feed_step(state, packet kind); 0.7-only states (5 Token, 6 PendingConnect) are generated
// by harness/gen/gen_net_conn.py for the 07 instantiation only (marker below)
#[kani::proof]
#[kani::unwind(8)]
#[kani::stub(libtw2_huffman::Huffman::compress_impl_unsafe, libtw2_huffman::Huffman::verif_compress_oracle)]
#[kani::stub(libtw2_huffman::Huffman::decompress_unsafe, libtw2_huffman::Huffman::verif_decompress_oracle)]
#[kani::stub(protocol::Packet::read, protocol::Packet::verif_read_stub)]
#[kani::stub(OnlineState::ack_chunks, OnlineState::verif_ack_chunks_record___V__)]
fn c01_feed_step_unconnected_keepalive___V__() {
    feed_step___V__(0, 0);
}
#[kani::proof]
#[kani::unwind(8)]
#[kani::stub(libtw2_huffman::Huffman::compress_impl_unsafe, libtw2_huffman::Huffman::verif_compress_oracle)]
#[kani::stub(libtw2_huffman::Huffman::decompress_unsafe, libtw2_huffman::Huffman::verif_decompress_oracle)]
#[kani::stub(protocol::Packet::read, protocol::Packet::verif_read_stub)]
#[kani::stub(OnlineState::ack_chunks, OnlineState::verif_ack_chunks_record___V__)]
fn c01_feed_step_unconnected_close___V__() {
    feed_step___V__(0, 1);
}
#[kani::proof]
#[kani::unwind(8)]
#[kani::stub(libtw2_huffman::Huffman::compress_impl_unsafe, libtw2_huffman::Huffman::verif_compress_oracle)]
#[kani::stub(libtw2_huffman::Huffman::decompress_unsafe, libtw2_huffman::Huffman::verif_decompress_oracle)]
#[kani::stub(protocol::Packet::read, protocol::Packet::verif_read_stub)]
#[kani::stub(OnlineState::ack_chunks, OnlineState::verif_ack_chunks_record___V__)]
fn c01_feed_step_unconnected_chunks___V__() {
    feed_step___V__(0, 2);
}
#[kani::proof]
#[kani::unwind(8)]
#[kani::stub(libtw2_huffman::Huffman::compress_impl_unsafe, libtw2_huffman::Huffman::verif_compress_oracle)]
#[kani::stub(libtw2_huffman::Huffman::decompress_unsafe, libtw2_huffman::Huffman::verif_decompress_oracle)]
#[kani::stub(protocol::Packet::read, protocol::Packet::verif_read_stub)]
#[kani::stub(OnlineState::ack_chunks, OnlineState::verif_ack_chunks_record___V__)]
fn c01_feed_step_unconnected_connect___V__() {
    feed_step___V__(0, 3);
}
#[kani::proof]
#[kani::unwind(8)]
#[kani::stub(libtw2_huffman::Huffman::compress_impl_unsafe, libtw2_huffman::Huffman::verif_compress_oracle)]
#[kani::stub(libtw2_huffman::Huffman::decompress_unsafe, libtw2_huffman::Huffman::verif_decompress_oracle)]
#[kani::stub(protocol::Packet::read, protocol::Packet::verif_read_stub)]
#[kani::stub(OnlineState::ack_chunks, OnlineState::verif_ack_chunks_record___V__)]
fn c01_feed_step_unconnected_k4___V__() {
    feed_step___V__(0, 4);
}
#[kani::proof]
#[kani::unwind(8)]
#[kani::stub(libtw2_huffman::Huffman::compress_impl_unsafe, libtw2_huffman::Huffman::verif_compress_oracle)]
#[kani::stub(libtw2_huffman::Huffman::decompress_unsafe, libtw2_huffman::Huffman::verif_decompress_oracle)]
#[kani::stub(protocol::Packet::read, protocol::Packet::verif_read_stub)]
#[kani::stub(OnlineState::ack_chunks, OnlineState::verif_ack_chunks_record___V__)]
fn c01_feed_step_unconnected_k5___V__() {
    feed_step___V__(0, 5);
}
#[kani::proof]
#[kani::unwind(8)]
#[kani::stub(libtw2_huffman::Huffman::compress_impl_unsafe, libtw2_huffman::Huffman::verif_compress_oracle)]
#[kani::stub(libtw2_huffman::Huffman::decompress_unsafe, libtw2_huffman::Huffman::verif_decompress_oracle)]
#[kani::stub(protocol::Packet::read, protocol::Packet::verif_read_stub)]
#[kani::stub(OnlineState::ack_chunks, OnlineState::verif_ack_chunks_record___V__)]
fn c01_feed_step_connecting_keepalive___V__() {
    feed_step___V__(1, 0);
}
#[kani::proof]
#[kani::unwind(8)]
#[kani::stub(libtw2_huffman::Huffman::compress_impl_unsafe, libtw2_huffman::Huffman::verif_compress_oracle)]
#[kani::stub(libtw2_huffman::Huffman::decompress_unsafe, libtw2_huffman::Huffman::verif_decompress_oracle)]
#[kani::stub(protocol::Packet::read, protocol::Packet::verif_read_stub)]
#[kani::stub(OnlineState::ack_chunks, OnlineState::verif_ack_chunks_record___V__)]
fn c01_feed_step_connecting_close___V__() {
    feed_step___V__(1, 1);
}
#[kani::proof]
#[kani::unwind(8)]
#[kani::stub(libtw2_huffman::Huffman::compress_impl_unsafe, libtw2_huffman::Huffman::verif_compress_oracle)]
#[kani::stub(libtw2_huffman::Huffman::decompress_unsafe, libtw2_huffman::Huffman::verif_decompress_oracle)]
#[kani::stub(protocol::Packet::read, protocol::Packet::verif_read_stub)]
#[kani::stub(OnlineState::ack_chunks, OnlineState::verif_ack_chunks_record___V__)]
fn c01_feed_step_connecting_chunks___V__() {
    feed_step___V__(1, 2);
}
#[kani::proof]
#[kani::unwind(8)]
#[kani::stub(libtw2_huffman::Huffman::compress_impl_unsafe, libtw2_huffman::Huffman::verif_compress_oracle)]
#[kani::stub(libtw2_huffman::Huffman::decompress_unsafe, libtw2_huffman::Huffman::verif_decompress_oracle)]
#[kani::stub(protocol::Packet::read, protocol::Packet::verif_read_stub)]
#[kani::stub(OnlineState::ack_chunks, OnlineState::verif_ack_chunks_record___V__)]
fn c01_feed_step_connecting_connect___V__() {
    feed_step___V__(1, 3);
}
#[kani::proof]
#[kani::unwind(8)]
#[kani::stub(libtw2_huffman::Huffman::compress_impl_unsafe, libtw2_huffman::Huffman::verif_compress_oracle)]
#[kani::stub(libtw2_huffman::Huffman::decompress_unsafe, libtw2_huffman::Huffman::verif_decompress_oracle)]
#[kani::stub(protocol::Packet::read, protocol::Packet::verif_read_stub)]
#[kani::stub(OnlineState::ack_chunks, OnlineState::verif_ack_chunks_record___V__)]
fn c01_feed_step_connecting_k4___V__() {
    feed_step___V__(1, 4);
}
#[kani::proof]
#[kani::unwind(8)]
#[kani::stub(libtw2_huffman::Huffman::compress_impl_unsafe, libtw2_huffman::Huffman::verif_compress_oracle)]
#[kani::stub(libtw2_huffman::Huffman::decompress_unsafe, libtw2_huffman::Huffman::verif_decompress_oracle)]
#[kani::stub(protocol::Packet::read, protocol::Packet::verif_read_stub)]
#[kani::stub(OnlineState::ack_chunks, OnlineState::verif_ack_chunks_record___V__)]
fn c01_feed_step_connecting_k5___V__() {
    feed_step___V__(1, 5);
}
#[kani::proof]
#[kani::unwind(8)]
#[kani::stub(libtw2_huffman::Huffman::compress_impl_unsafe, libtw2_huffman::Huffman::verif_compress_oracle)]
#[kani::stub(libtw2_huffman::Huffman::decompress_unsafe, libtw2_huffman::Huffman::verif_decompress_oracle)]
#[kani::stub(protocol::Packet::read, protocol::Packet::verif_read_stub)]
#[kani::stub(OnlineState::ack_chunks, OnlineState::verif_ack_chunks_record___V__)]
fn c01_feed_step_pending_keepalive___V__() {
    feed_step___V__(2, 0);
}
#[kani::proof]
#[kani::unwind(8)]
#[kani::stub(libtw2_huffman::Huffman::compress_impl_unsafe, libtw2_huffman::Huffman::verif_compress_oracle)]
#[kani::stub(libtw2_huffman::Huffman::decompress_unsafe, libtw2_huffman::Huffman::verif_decompress_oracle)]
#[kani::stub(protocol::Packet::read, protocol::Packet::verif_read_stub)]
#[kani::stub(OnlineState::ack_chunks, OnlineState::verif_ack_chunks_record___V__)]
fn c01_feed_step_pending_close___V__() {
    feed_step___V__(2, 1);
}
#[kani::proof]
#[kani::unwind(8)]
#[kani::stub(libtw2_huffman::Huffman::compress_impl_unsafe, libtw2_huffman::Huffman::verif_compress_oracle)]
#[kani::stub(libtw2_huffman::Huffman::decompress_unsafe, libtw2_huffman::Huffman::verif_decompress_oracle)]
#[kani::stub(protocol::Packet::read, protocol::Packet::verif_read_stub)]
#[kani::stub(OnlineState::ack_chunks, OnlineState::verif_ack_chunks_record___V__)]
fn c01_feed_step_pending_chunks___V__() {
    feed_step___V__(2, 2);
}
#[kani::proof]
#[kani::unwind(8)]
#[kani::stub(libtw2_huffman::Huffman::compress_impl_unsafe, libtw2_huffman::Huffman::verif_compress_oracle)]
#[kani::stub(libtw2_huffman::Huffman::decompress_unsafe, libtw2_huffman::Huffman::verif_decompress_oracle)]
#[kani::stub(protocol::Packet::read, protocol::Packet::verif_read_stub)]
#[kani::stub(OnlineState::ack_chunks, OnlineState::verif_ack_chunks_record___V__)]
fn c01_feed_step_pending_connect___V__() {
    feed_step___V__(2, 3);
}
#[kani::proof]
#[kani::unwind(8)]
#[kani::stub(libtw2_huffman::Huffman::compress_impl_unsafe, libtw2_huffman::Huffman::verif_compress_oracle)]
#[kani::stub(libtw2_huffman::Huffman::decompress_unsafe, libtw2_huffman::Huffman::verif_decompress_oracle)]
#[kani::stub(protocol::Packet::read, protocol::Packet::verif_read_stub)]
#[kani::stub(OnlineState::ack_chunks, OnlineState::verif_ack_chunks_record___V__)]
fn c01_feed_step_pending_k4___V__() {
    feed_step___V__(2, 4);
}
#[kani::proof]
#[kani::unwind(8)]
#[kani::stub(libtw2_huffman::Huffman::compress_impl_unsafe, libtw2_huffman::Huffman::verif_compress_oracle)]
#[kani::stub(libtw2_huffman::Huffman::decompress_unsafe, libtw2_huffman::Huffman::verif_decompress_oracle)]
#[kani::stub(protocol::Packet::read, protocol::Packet::verif_read_stub)]
#[kani::stub(OnlineState::ack_chunks, OnlineState::verif_ack_chunks_record___V__)]
fn c01_feed_step_pending_k5___V__() {
    feed_step___V__(2, 5);
}
#[kani::proof]
#[kani::unwind(8)]
#[kani::stub(libtw2_huffman::Huffman::compress_impl_unsafe, libtw2_huffman::Huffman::verif_compress_oracle)]
#[kani::stub(libtw2_huffman::Huffman::decompress_unsafe, libtw2_huffman::Huffman::verif_decompress_oracle)]
#[kani::stub(protocol::Packet::read, protocol::Packet::verif_read_stub)]
#[kani::stub(OnlineState::ack_chunks, OnlineState::verif_ack_chunks_record___V__)]
fn c01_feed_step_online_keepalive___V__() {
    feed_step___V__(3, 0);
}
#[kani::proof]
#[kani::unwind(8)]
#[kani::stub(libtw2_huffman::Huffman::compress_impl_unsafe, libtw2_huffman::Huffman::verif_compress_oracle)]
#[kani::stub(libtw2_huffman::Huffman::decompress_unsafe, libtw2_huffman::Huffman::verif_decompress_oracle)]
#[kani::stub(protocol::Packet::read, protocol::Packet::verif_read_stub)]
#[kani::stub(OnlineState::ack_chunks, OnlineState::verif_ack_chunks_record___V__)]
fn c01_feed_step_online_close___V__() {
    feed_step___V__(3, 1);
}
#[kani::proof]
#[kani::unwind(8)]
#[kani::stub(libtw2_huffman::Huffman::compress_impl_unsafe, libtw2_huffman::Huffman::verif_compress_oracle)]
#[kani::stub(libtw2_huffman::Huffman::decompress_unsafe, libtw2_huffman::Huffman::verif_decompress_oracle)]
#[kani::stub(protocol::Packet::read, protocol::Packet::verif_read_stub)]
#[kani::stub(OnlineState::ack_chunks, OnlineState::verif_ack_chunks_record___V__)]
fn c01_feed_step_online_chunks___V__() {
    feed_step___V__(3, 2);
}
#[kani::proof]
#[kani::unwind(8)]
#[kani::stub(libtw2_huffman::Huffman::compress_impl_unsafe, libtw2_huffman::Huffman::verif_compress_oracle)]
#[kani::stub(libtw2_huffman::Huffman::decompress_unsafe, libtw2_huffman::Huffman::verif_decompress_oracle)]
#[kani::stub(protocol::Packet::read, protocol::Packet::verif_read_stub)]
#[kani::stub(OnlineState::ack_chunks, OnlineState::verif_ack_chunks_record___V__)]
fn c01_feed_step_online_connect___V__() {
    feed_step___V__(3, 3);
}
#[kani::proof]
#[kani::unwind(8)]
#[kani::stub(libtw2_huffman::Huffman::compress_impl_unsafe, libtw2_huffman::Huffman::verif_compress_oracle)]
#[kani::stub(libtw2_huffman::Huffman::decompress_unsafe, libtw2_huffman::Huffman::verif_decompress_oracle)]
#[kani::stub(protocol::Packet::read, protocol::Packet::verif_read_stub)]
#[kani::stub(OnlineState::ack_chunks, OnlineState::verif_ack_chunks_record___V__)]
fn c01_feed_step_online_k4___V__() {
    feed_step___V__(3, 4);
}
#[kani::proof]
#[kani::unwind(8)]
#[kani::stub(libtw2_huffman::Huffman::compress_impl_unsafe, libtw2_huffman::Huffman::verif_compress_oracle)]
#[kani::stub(libtw2_huffman::Huffman::decompress_unsafe, libtw2_huffman::Huffman::verif_decompress_oracle)]
#[kani::stub(protocol::Packet::read, protocol::Packet::verif_read_stub)]
#[kani::stub(OnlineState::ack_chunks, OnlineState::verif_ack_chunks_record___V__)]
fn c01_feed_step_online_k5___V__() {
    feed_step___V__(3, 5);
}
#[kani::proof]
#[kani::unwind(8)]
#[kani::stub(libtw2_huffman::Huffman::compress_impl_unsafe, libtw2_huffman::Huffman::verif_compress_oracle)]
#[kani::stub(libtw2_huffman::Huffman::decompress_unsafe, libtw2_huffman::Huffman::verif_decompress_oracle)]
#[kani::stub(protocol::Packet::read, protocol::Packet::verif_read_stub)]
#[kani::stub(OnlineState::ack_chunks, OnlineState::verif_ack_chunks_record___V__)]
fn c01_feed_step_disconnected_keepalive___V__() {
    feed_step___V__(4, 0);
}
#[kani::proof]
#[kani::unwind(8)]
#[kani::stub(libtw2_huffman::Huffman::compress_impl_unsafe, libtw2_huffman::Huffman::verif_compress_oracle)]
#[kani::stub(libtw2_huffman::Huffman::decompress_unsafe, libtw2_huffman::Huffman::verif_decompress_oracle)]
#[kani::stub(protocol::Packet::read, protocol::Packet::verif_read_stub)]
#[kani::stub(OnlineState::ack_chunks, OnlineState::verif_ack_chunks_record___V__)]
fn c01_feed_step_disconnected_close___V__() {
    feed_step___V__(4, 1);
}
#[kani::proof]
#[kani::unwind(8)]
#[kani::stub(libtw2_huffman::Huffman::compress_impl_unsafe, libtw2_huffman::Huffman::verif_compress_oracle)]
#[kani::stub(libtw2_huffman::Huffman::decompress_unsafe, libtw2_huffman::Huffman::verif_decompress_oracle)]
#[kani::stub(protocol::Packet::read, protocol::Packet::verif_read_stub)]
#[kani::stub(OnlineState::ack_chunks, OnlineState::verif_ack_chunks_record___V__)]
fn c01_feed_step_disconnected_chunks___V__() {
    feed_step___V__(4, 2);
}
#[kani::proof]
#[kani::unwind(8)]
#[kani::stub(libtw2_huffman::Huffman::compress_impl_unsafe, libtw2_huffman::Huffman::verif_compress_oracle)]
#[kani::stub(libtw2_huffman::Huffman::decompress_unsafe, libtw2_huffman::Huffman::verif_decompress_oracle)]
#[kani::stub(protocol::Packet::read, protocol::Packet::verif_read_stub)]
#[kani::stub(OnlineState::ack_chunks, OnlineState::verif_ack_chunks_record___V__)]
fn c01_feed_step_disconnected_connect___V__() {
    feed_step___V__(4, 3);
}
#[kani::proof]
#[kani::unwind(8)]
#[kani::stub(libtw2_huffman::Huffman::compress_impl_unsafe, libtw2_huffman::Huffman::verif_compress_oracle)]
#[kani::stub(libtw2_huffman::Huffman::decompress_unsafe, libtw2_huffman::Huffman::verif_decompress_oracle)]
#[kani::stub(protocol::Packet::read, protocol::Packet::verif_read_stub)]
#[kani::stub(OnlineState::ack_chunks, OnlineState::verif_ack_chunks_record___V__)]
fn c01_feed_step_disconnected_k4___V__() {
    feed_step___V__(4, 4);
}
#[kani::proof]
#[kani::unwind(8)]
#[kani::stub(libtw2_huffman::Huffman::compress_impl_unsafe, libtw2_huffman::Huffman::verif_compress_oracle)]
#[kani::stub(libtw2_huffman::Huffman::decompress_unsafe, libtw2_huffman::Huffman::verif_decompress_oracle)]
#[kani::stub(protocol::Packet::read, protocol::Packet::verif_read_stub)]
#[kani::stub(OnlineState::ack_chunks, OnlineState::verif_ack_chunks_record___V__)]
fn c01_feed_step_disconnected_k5___V__() {
    feed_step___V__(4, 5);
}
// __ONLY06_BEGIN__
#[kani::proof]
#[kani::unwind(8)]
#[kani::stub(libtw2_huffman::Huffman::compress_impl_unsafe, libtw2_huffman::Huffman::verif_compress_oracle)]
#[kani::stub(libtw2_huffman::Huffman::decompress_unsafe, libtw2_huffman::Huffman::verif_decompress_oracle)]
#[kani::stub(protocol::Packet::read, protocol::Packet::verif_read_stub)]
#[kani::stub(OnlineState::ack_chunks, OnlineState::verif_ack_chunks_record___V__)]
fn c01_feed_step_onlinenotoken_close___V__() {
    feed_step___V__(7, 1);
}
#[kani::proof]
#[kani::unwind(8)]
#[kani::stub(libtw2_huffman::Huffman::compress_impl_unsafe, libtw2_huffman::Huffman::verif_compress_oracle)]
#[kani::stub(libtw2_huffman::Huffman::decompress_unsafe, libtw2_huffman::Huffman::verif_decompress_oracle)]
#[kani::stub(protocol::Packet::read, protocol::Packet::verif_read_stub)]
#[kani::stub(OnlineState::ack_chunks, OnlineState::verif_ack_chunks_record___V__)]
fn c01_feed_step_onlinenotoken_chunks___V__() {
    feed_step___V__(7, 2);
}
#[kani::proof]
#[kani::unwind(8)]
#[kani::stub(libtw2_huffman::Huffman::compress_impl_unsafe, libtw2_huffman::Huffman::verif_compress_oracle)]
#[kani::stub(libtw2_huffman::Huffman::decompress_unsafe, libtw2_huffman::Huffman::verif_decompress_oracle)]
#[kani::stub(protocol::Packet::read, protocol::Packet::verif_read_stub)]
#[kani::stub(OnlineState::ack_chunks, OnlineState::verif_ack_chunks_record___V__)]
fn c01_feed_step_onlinenotoken_k4___V__() {
    feed_step___V__(7, 4);
}
// __ONLY06_END__
// __ONLY07_BEGIN__
#[kani::proof]
#[kani::unwind(8)]
#[kani::stub(libtw2_huffman::Huffman::compress_impl_unsafe, libtw2_huffman::Huffman::verif_compress_oracle)]
fn c04_disconnect_step_tokenwait___V__() {
    disconnect_step___V__(5);
}
#[kani::proof]
#[kani::unwind(8)]
#[kani::stub(libtw2_huffman::Huffman::compress_impl_unsafe, libtw2_huffman::Huffman::verif_compress_oracle)]
fn c04_disconnect_step_pendingconnect___V__() {
    disconnect_step___V__(6);
}
#[kani::proof]
#[kani::unwind(8)]
#[kani::stub(libtw2_huffman::Huffman::compress_impl_unsafe, libtw2_huffman::Huffman::verif_compress_oracle)]
fn c02_tick_step_tokenwait___V__() {
    tick_step_handshake___V__(5);
}
#[kani::proof]
#[kani::unwind(8)]
#[kani::stub(libtw2_huffman::Huffman::compress_impl_unsafe, libtw2_huffman::Huffman::verif_compress_oracle)]
#[kani::stub(libtw2_huffman::Huffman::decompress_unsafe, libtw2_huffman::Huffman::verif_decompress_oracle)]
#[kani::stub(protocol::Packet::read, protocol::Packet::verif_read_stub)]
#[kani::stub(OnlineState::ack_chunks, OnlineState::verif_ack_chunks_record___V__)]
fn c01_feed_step_tokenwait_keepalive___V__() {
    feed_step___V__(5, 0);
}
#[kani::proof]
#[kani::unwind(8)]
#[kani::stub(libtw2_huffman::Huffman::compress_impl_unsafe, libtw2_huffman::Huffman::verif_compress_oracle)]
#[kani::stub(libtw2_huffman::Huffman::decompress_unsafe, libtw2_huffman::Huffman::verif_decompress_oracle)]
#[kani::stub(protocol::Packet::read, protocol::Packet::verif_read_stub)]
#[kani::stub(OnlineState::ack_chunks, OnlineState::verif_ack_chunks_record___V__)]
fn c01_feed_step_tokenwait_close___V__() {
    feed_step___V__(5, 1);
}
#[kani::proof]
#[kani::unwind(8)]
#[kani::stub(libtw2_huffman::Huffman::compress_impl_unsafe, libtw2_huffman::Huffman::verif_compress_oracle)]
#[kani::stub(libtw2_huffman::Huffman::decompress_unsafe, libtw2_huffman::Huffman::verif_decompress_oracle)]
#[kani::stub(protocol::Packet::read, protocol::Packet::verif_read_stub)]
#[kani::stub(OnlineState::ack_chunks, OnlineState::verif_ack_chunks_record___V__)]
fn c01_feed_step_tokenwait_chunks___V__() {
    feed_step___V__(5, 2);
}
#[kani::proof]
#[kani::unwind(8)]
#[kani::stub(libtw2_huffman::Huffman::compress_impl_unsafe, libtw2_huffman::Huffman::verif_compress_oracle)]
#[kani::stub(libtw2_huffman::Huffman::decompress_unsafe, libtw2_huffman::Huffman::verif_decompress_oracle)]
#[kani::stub(protocol::Packet::read, protocol::Packet::verif_read_stub)]
#[kani::stub(OnlineState::ack_chunks, OnlineState::verif_ack_chunks_record___V__)]
fn c01_feed_step_tokenwait_connect___V__() {
    feed_step___V__(5, 3);
}
#[kani::proof]
#[kani::unwind(8)]
#[kani::stub(libtw2_huffman::Huffman::compress_impl_unsafe, libtw2_huffman::Huffman::verif_compress_oracle)]
#[kani::stub(libtw2_huffman::Huffman::decompress_unsafe, libtw2_huffman::Huffman::verif_decompress_oracle)]
#[kani::stub(protocol::Packet::read, protocol::Packet::verif_read_stub)]
#[kani::stub(OnlineState::ack_chunks, OnlineState::verif_ack_chunks_record___V__)]
fn c01_feed_step_tokenwait_k4___V__() {
    feed_step___V__(5, 4);
}
#[kani::proof]
#[kani::unwind(8)]
#[kani::stub(libtw2_huffman::Huffman::compress_impl_unsafe, libtw2_huffman::Huffman::verif_compress_oracle)]
#[kani::stub(libtw2_huffman::Huffman::decompress_unsafe, libtw2_huffman::Huffman::verif_decompress_oracle)]
#[kani::stub(protocol::Packet::read, protocol::Packet::verif_read_stub)]
#[kani::stub(OnlineState::ack_chunks, OnlineState::verif_ack_chunks_record___V__)]
fn c01_feed_step_tokenwait_k5___V__() {
    feed_step___V__(5, 5);
}
#[kani::proof]
#[kani::unwind(8)]
#[kani::stub(libtw2_huffman::Huffman::compress_impl_unsafe, libtw2_huffman::Huffman::verif_compress_oracle)]
#[kani::stub(libtw2_huffman::Huffman::decompress_unsafe, libtw2_huffman::Huffman::verif_decompress_oracle)]
#[kani::stub(protocol::Packet::read, protocol::Packet::verif_read_stub)]
#[kani::stub(OnlineState::ack_chunks, OnlineState::verif_ack_chunks_record___V__)]
fn c01_feed_step_pendingconnect_keepalive___V__() {
    feed_step___V__(6, 0);
}
#[kani::proof]
#[kani::unwind(8)]
#[kani::stub(libtw2_huffman::Huffman::compress_impl_unsafe, libtw2_huffman::Huffman::verif_compress_oracle)]
#[kani::stub(libtw2_huffman::Huffman::decompress_unsafe, libtw2_huffman::Huffman::verif_decompress_oracle)]
#[kani::stub(protocol::Packet::read, protocol::Packet::verif_read_stub)]
#[kani::stub(OnlineState::ack_chunks, OnlineState::verif_ack_chunks_record___V__)]
fn c01_feed_step_pendingconnect_close___V__() {
    feed_step___V__(6, 1);
}
#[kani::proof]
#[kani::unwind(8)]
#[kani::stub(libtw2_huffman::Huffman::compress_impl_unsafe, libtw2_huffman::Huffman::verif_compress_oracle)]
#[kani::stub(libtw2_huffman::Huffman::decompress_unsafe, libtw2_huffman::Huffman::verif_decompress_oracle)]
#[kani::stub(protocol::Packet::read, protocol::Packet::verif_read_stub)]
#[kani::stub(OnlineState::ack_chunks, OnlineState::verif_ack_chunks_record___V__)]
fn c01_feed_step_pendingconnect_chunks___V__() {
    feed_step___V__(6, 2);
}
#[kani::proof]
#[kani::unwind(8)]
#[kani::stub(libtw2_huffman::Huffman::compress_impl_unsafe, libtw2_huffman::Huffman::verif_compress_oracle)]
#[kani::stub(libtw2_huffman::Huffman::decompress_unsafe, libtw2_huffman::Huffman::verif_decompress_oracle)]
#[kani::stub(protocol::Packet::read, protocol::Packet::verif_read_stub)]
#[kani::stub(OnlineState::ack_chunks, OnlineState::verif_ack_chunks_record___V__)]
fn c01_feed_step_pendingconnect_connect___V__() {
    feed_step___V__(6, 3);
}
#[kani::proof]
#[kani::unwind(8)]
#[kani::stub(libtw2_huffman::Huffman::compress_impl_unsafe, libtw2_huffman::Huffman::verif_compress_oracle)]
#[kani::stub(libtw2_huffman::Huffman::decompress_unsafe, libtw2_huffman::Huffman::verif_decompress_oracle)]
#[kani::stub(protocol::Packet::read, protocol::Packet::verif_read_stub)]
#[kani::stub(OnlineState::ack_chunks, OnlineState::verif_ack_chunks_record___V__)]
fn c01_feed_step_pendingconnect_k4___V__() {
    feed_step___V__(6, 4);
}
#[kani::proof]
#[kani::unwind(8)]
#[kani::stub(libtw2_huffman::Huffman::compress_impl_unsafe, libtw2_huffman::Huffman::verif_compress_oracle)]
#[kani::stub(libtw2_huffman::Huffman::decompress_unsafe, libtw2_huffman::Huffman::verif_decompress_oracle)]
#[kani::stub(protocol::Packet::read, protocol::Packet::verif_read_stub)]
#[kani::stub(OnlineState::ack_chunks, OnlineState::verif_ack_chunks_record___V__)]
fn c01_feed_step_pendingconnect_k5___V__() {
    feed_step___V__(6, 5);
}
// __ONLY07_END__
