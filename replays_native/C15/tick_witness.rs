// native witness for C15: DemoWriter::write_snap with a tick equal to the previous one
use libtw2_demo::ddnet::DemoWriter;
use libtw2_demo::DemoKind;
use libtw2_gamenet_ddnet::Protocol;
use std::io::Cursor;

fn writer() -> DemoWriter<'static, Protocol> {
    DemoWriter::new(Cursor::new(Vec::new()), b"0.6 626fce9a778df4d4", b"dm1", None, 0, DemoKind::Server, 0, b"", b"").unwrap()
}

#[test]
fn same_tick_twice_is_refused_not_a_panic() {
    let mut w = writer();
    assert!(w.write_snap(5, std::iter::empty()).is_ok());
    assert!(w.write_snap(5, std::iter::empty()).is_err());
    // the recording stays usable
    assert!(w.write_snap(6, std::iter::empty()).is_ok());
}

#[test]
fn first_tick_minus_one_is_refused() {
    let mut w = writer();
    assert!(w.write_snap(-1, std::iter::empty()).is_err());
}
