#!/bin/sh
# seeded_run.sh <seeded-id> [tier] : apply /verif/seeded/<id>/patch.diff to /repo, run the check(s) of the
# property named in meta.json (or all given as $CHECKS), undo the patch straight afterwards.
set -u
id="$1"; tier="${2:-quick}"
d=/verif/seeded/$id
prop=$(python3 -c "import json;print(' '.join(json.load(open('$d/meta.json'))['run_checks']))")
cd /repo || exit 9
git diff --quiet || { echo "/repo has local changes; refusing"; exit 9; }
git apply "$d/patch.diff" || { echo "patch does not apply"; exit 9; }
rc_all=0
for p in $prop; do
  VERIF_MEM_GB=${VERIF_MEM_GB:-30} /verif/bin/check $p --tier $tier --no-evidence > /tmp/seeded_${id}_$p.out 2>&1
  rc=$?
  echo "seeded=$id check=$p tier=$tier exit=$rc"
  grep "VIOLATION\|COUNTEREXAMPLE-NOT\|FAIL " /tmp/seeded_${id}_$p.out | cut -c1-220
  [ $rc -ne 0 ] && rc_all=$rc
done
git -C /repo checkout -- .
exit $rc_all
