#!/bin/sh
# run_all.sh [tier] [ids...] : runs the registered checks one after the other, one log per check
tier="${1:-quick}"; shift
ids="${*:-C01 C02 C03 C04 C05 C06 C07 C08 C09 C10 C11 C12 C14 C15 C16 C17 C18 C19 C20}"
cd "$(dirname "$0")/.."
mkdir -p .cache/runall
for p in $ids; do
  t0=$(date +%s)
  bin/check $p --tier $tier > .cache/runall/$p.$tier.log 2>&1
  rc=$?
  echo "$p tier=$tier exit=$rc wall=$(( $(date +%s) - t0 ))s"
done
