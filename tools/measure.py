#!/usr/bin/env python3
"""measure.py <logfile>... [--scale F] : collects per-harness cbmc time / peak rss from runner output
lines into tools/measurements.json (used by tools/retier.py to assign tiers and memory budgets)"""
import json, os, re, sys
here = os.path.dirname(os.path.abspath(__file__))
mp = os.path.join(here, "measurements.json")
m = json.load(open(mp)) if os.path.exists(mp) else {}
scale = 1.0
files = []
args = sys.argv[1:]
while args:
    a = args.pop(0)
    if a == "--scale":
        scale = float(args.pop(0))
    else:
        files.append(a)
rx = re.compile(r"^\[C\d+\] (c\d+_\w+): ([A-Z-]+) (.*)\(cbmc (\d+)s, wall (\d+)s, rss (\w+) MB, (\d+) checks\)")
for f in files:
    for line in open(f, errors="replace"):
        mm = rx.match(line)
        if not mm:
            continue
        name, st, detail, cbmc, wall, rss, nchk = mm.groups()
        if st not in ("PASS", "VACUOUS", "FAIL"):
            # keep a record of harnesses that did not finish
            m[name] = {"cbmc_s": None, "rss_mb": int(rss) if rss.isdigit() else None, "status": st + " " + detail.strip()[:60], "src": os.path.basename(f)}
            continue
        m[name] = {"cbmc_s": round(int(cbmc) * scale), "wall_s": round(int(wall) * scale), "rss_mb": int(rss), "status": st, "src": os.path.basename(f)}
json.dump(m, open(mp, "w"), indent=1, sort_keys=True)
print(len(m), "harnesses measured")
