#!/usr/bin/env python3
"""Regenerates MANIFEST.json from tools/manifest_src.json + plans/*.json (keeps it valid at all times)."""
import json, os, subprocess, sys
V = os.path.dirname(os.path.dirname(os.path.abspath(__file__)))
src = json.load(open(os.path.join(V, "tools", "manifest_src.json")))
props = [json.loads(l) for l in open(os.path.join(V, "properties.jsonl"))]
checks = []
na = []
for p in props:
    pid = p["id"]
    c = src["checks"].get(pid)
    if c is None or not os.path.exists(os.path.join(V, "plans", pid + ".json")):
        na.append({"property_id": pid, "reason": src["not_applicable"].get(pid, "no check registered yet (work in progress); not claimed")})
        continue
    checks.append({
        "property_id": pid,
        "quick_cmd": "bin/check %s --tier quick" % pid,
        "thorough_cmd": "bin/check %s --tier thorough" % pid,
        "evidence_file": "evidence/%s.json" % pid,
        "replay_cmd_template": "bin/check %s --replay {path}" % pid,
        "engine": "kani-cbmc",
        "level_claimed": {"category": "model_checking", "text": c["text"], "design_ref": c.get("design_ref", "DESIGN.md section 5, " + pid)},
        "level_note": c["note"],
        "technique": c.get("technique", "bounded model checking of the compiled Rust code: Kani 0.68 (rustc MIR -> goto) + CBMC 6.11 + CaDiCaL, symbolic inputs, unwinding assertions, counterexamples replayed natively"),
    })
hooks = subprocess.check_output(["git", "-C", "/repo", "log", "--format=%H %s", "--grep", "^verif hook:"]).decode().split("\n")
man = {
    "version": 1,
    "setup_cmd": "bin/setup",
    "hooks": {
        "guard": "cfg(kani)",
        "enable": "cargo kani sets --cfg kani; the runner exports LIBTW2_VERIF_HARNESS=<scratch>/harness so that the add-only blocks `#[cfg(kani)] mod verif_kani { use super::*; include!(concat!(env!(\"LIBTW2_VERIF_HARNESS\"), \"/<file>.rs\")); }` mount the harness modules kept in /verif/harness/incrate",
        "baseline_off_cmd": "cd /repo && cargo test --workspace --no-fail-fast --offline",
        "source_commits": [h.split(" ")[0] for h in hooks if h.strip()],
        "add_only": True,
    },
    "engines": [{"name": "kani-cbmc", "path": "vlib/runner.py", "serves_properties": [c["property_id"] for c in checks],
                 "kind_free_text": "Kani 0.68.0 compiles the real crates plus in-crate harness modules to goto programs; CBMC 6.11.0 (CaDiCaL) decides every assertion for all values of the symbolic inputs within stated unwind bounds"}],
    "checks": checks,
    "notes": src.get("notes", ""),
    "not_applicable": na,
}
json.dump(man, open(os.path.join(V, "MANIFEST.json"), "w"), indent=1)
print("MANIFEST.json: %d checks, %d not_applicable" % (len(checks), len(na)))
