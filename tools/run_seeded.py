#!/usr/bin/env python3
"""run_seeded.py <Sxx> [--tier quick|thorough] [--harness SUBSTR] [--checks C01,C03]
Evaluates the checks against one seeded change: the patch is applied to a scratch worktree of /repo
HEAD (never to /repo itself, so regular runs are not disturbed), the checks named in meta.json
run_checks are run against it (LIBTW2_REPO, private scratch/target dirs, no evidence written) and
the outcome is recorded in seeded/<Sxx>/detection.json."""
import json, os, re, subprocess, sys, time
V = os.path.dirname(os.path.dirname(os.path.abspath(__file__)))
sid = sys.argv[1]
tier, sub, checks = "quick", None, None
a = sys.argv[2:]
while a:
    x = a.pop(0)
    if x == "--tier": tier = a.pop(0)
    elif x == "--harness": sub = a.pop(0)
    elif x == "--checks": checks = a.pop(0).split(",")
d = os.path.join(V, "seeded", sid)
meta = json.load(open(os.path.join(d, "meta.json")))
checks = checks or meta["run_checks"]
W = "/tmp/mutw/" + sid
os.makedirs("/tmp/mutw", exist_ok=True)
subprocess.call(["git", "-C", "/repo", "worktree", "remove", "--force", W], stdout=subprocess.DEVNULL, stderr=subprocess.DEVNULL)
subprocess.check_call(["git", "-C", "/repo", "worktree", "add", "--detach", W, "HEAD"], stdout=subprocess.DEVNULL, stderr=subprocess.DEVNULL)
try:
    subprocess.check_call(["git", "-C", W, "apply", os.path.join(d, "patch.diff")])
    res = json.load(open(os.path.join(d, "detection.json"))) if os.path.exists(os.path.join(d, "detection.json")) else {"runs": []}
    for c in checks:
        cmd = [os.path.join(V, "bin", "check"), c, "--tier", tier]
        if sub:
            cmd += ["--harness", sub]
        env = dict(os.environ, LIBTW2_REPO=W, VERIF_TAG_SUFFIX="-" + sid)
        # warm start: copy the registry-crate artefacts of the regular target directory
        src_t, dst_t = os.path.join(V, ".cache", "target", c), os.path.join(V, ".cache", "target", c + "-" + sid)
        if os.path.isdir(src_t) and not os.path.isdir(dst_t):
            subprocess.call(["cp", "-a", src_t, dst_t])
        t0 = time.time()
        p = subprocess.run(cmd, cwd=V, env=env, stdout=subprocess.PIPE, stderr=subprocess.STDOUT, text=True)
        out = p.stdout
        viol = re.findall(r"^VIOLATION property=(\S+) replay=(\S+)", out, re.M)
        failing = re.findall(r"^\[C\d+\] (\w+): FAIL (.*?) \(cbmc", out, re.M)
        notrep = re.findall(r"^COUNTEREXAMPLE-NOT-REPRODUCED .*harness=(\S+)", out, re.M)
        rec = {"check": c, "tier": tier, "harness_filter": sub, "exit": p.returncode, "violation_lines": len(viol),
               "failing_harnesses": [{"harness": h, "what": w[:160]} for h, w in failing], "not_reproduced": notrep,
               "wall_s": round(time.time() - t0), "repo_head": subprocess.run(["git", "-C", "/repo", "rev-parse", "--short", "HEAD"], stdout=subprocess.PIPE, text=True).stdout.strip(),
               "verif_head": subprocess.run(["git", "-C", V, "rev-parse", "--short", "HEAD"], stdout=subprocess.PIPE, text=True).stdout.strip()}
        res["runs"] = [r for r in res["runs"] if not (r["check"] == c and r["tier"] == tier and r.get("harness_filter") == sub)] + [rec]
        print(sid, c, tier, sub, "exit", p.returncode, "VIOLATION" if viol else "", [h for h, _ in failing][:4], flush=True)
        open("/var/tmp/seeded_%s_%s.log" % (sid, c), "w").write(out)
    res["detected"] = any(r["exit"] == 1 and r["violation_lines"] for r in res["runs"])
    json.dump(res, open(os.path.join(d, "detection.json"), "w"), indent=1)
finally:
    subprocess.call(["git", "-C", "/repo", "worktree", "remove", "--force", W], stdout=subprocess.DEVNULL, stderr=subprocess.DEVNULL)
    subprocess.call("rm -rf /var/tmp/libtw2-verif/*-%s %s/.cache/target/*-%s*" % (sid, V, sid), shell=True)
