#!/usr/bin/env python3
"""prints the markdown table of seeded changes and which check/harness reported them (from seeded/*/meta.json and detection.json)"""
import glob, json, os
V = os.path.dirname(os.path.dirname(os.path.abspath(__file__)))
plans = {}
for f in glob.glob(os.path.join(V, "plans", "C*.json")):
    p = json.load(open(f))
    for h in p["harnesses"]:
        plans.setdefault(h["name"], h.get("tier", "quick"))
print("| id | property | what it needs to manifest | reported by (harness: tier) | outcome |")
print("|---|---|---|---|---|")
for d in sorted(glob.glob(os.path.join(V, "seeded", "*"))):
    m = json.load(open(os.path.join(d, "meta.json")))
    det = os.path.join(d, "detection.json")
    needs = m.get("needs_to_manifest", "")
    needs = needs if len(needs) < 150 else needs[:147] + "..."
    if os.path.exists(det):
        r = json.load(open(det))
        hs = []
        for run in r["runs"]:
            for fh in run["failing_harnesses"]:
                t = plans.get(fh["harness"], "generated")
                s = "%s: %s" % (fh["harness"], t)
                if s not in hs:
                    hs.append(s)
        viol = any(run["exit"] == 1 and run["violation_lines"] for run in r["runs"])
        nr = any(run.get("not_reproduced") for run in r["runs"])
        outcome = "VIOLATION (replayed natively)" if viol else ("counterexample, native replay did not reproduce (exit 2)" if nr else "not reported (exit %s)" % ",".join(str(run["exit"]) for run in r["runs"]))
        print("| %s | %s | %s | %s | %s |" % (m["id"], m["breaks_property"], needs, "; ".join(hs[:3]) or "-", outcome))
    else:
        print("| %s | %s | %s | - | not evaluated |" % (m["id"], m["breaks_property"], needs))
