#!/bin/sh
# add_hook.sh <libtw2 source file relative to /repo> <harness file name>
# Appends the add-only cfg(kani) hook and commits it in /repo.
set -e
src="$1"; hf="$2"
cd /repo
grep -q "LIBTW2_VERIF_HARNESS\"), \"/$hf\"" "$src" && { echo "hook already present"; exit 0; }
cat >> "$src" <<EOT

#[cfg(kani)]
mod verif_kani {
    use super::*;
    include!(concat!(env!("LIBTW2_VERIF_HARNESS"), "/$hf"));
}
EOT
git add "$src"
git commit -q -m "verif hook: mount Kani harness module in $src (cfg(kani) only)"
git log --oneline | head -1
