#!/usr/bin/env python3
"""retier.py [--write]: assigns tier / declared memory / timeouts of the harnesses in plans/C*.json from
tools/measurements.json and prints an estimate of each check's quick wall time.

Rule: a harness is 'quick' iff its measured CBMC time is <= QUICK_CBMC_S and its peak RSS is <=
QUICK_RSS_MB (or it is pinned below); declared memory = 1.6 x measured RSS + 1 GB (at least 2 GB).
vp check stops a quick command after 900 s; the estimate below must stay well under that."""
import json, glob, math, os, sys
here = os.path.dirname(os.path.abspath(__file__))
V = os.path.dirname(here)
M = json.load(open(os.path.join(here, "measurements.json")))
QUICK_CBMC_S = 160
QUICK_RSS_MB = 14000
# measured as not finishing within 16-30 GB / 2400 s on this machine: kept, selectable with --tier heavy
PIN_HEAVY = set("""
c02_resend_rearms_06 c02_resend_rearms_07 c02_tick_step_online_06 c02_tick_step_online_07 c02_tick_step_tokenwait_07
c01_feed_step_online_keepalive_06 c01_feed_step_online_close_06 c01_feed_step_online_chunks_06 c01_feed_step_online_connect_06
c01_feed_step_online_k4_06 c01_feed_step_online_k5_06 c01_feed_step_onlinenotoken_close_06 c01_feed_step_onlinenotoken_chunks_06
c01_feed_step_onlinenotoken_k4_06 c17_tick_skip_step_wide c17_frag_read_player_diff_bytewise c11_delta_corrupt_num_deleted
c20_reject_removes_only_that_peer c20_needs_tick_is_earliest_peer_deadline
""".split())
PIN_THOROUGH = set("""
c11_delta_corrupt_num_deleted c02_resend_rearms_06 c02_resend_rearms_07 c17_decode_prefix_console_command
c02_tick_step_tokenwait_07
""".split())
PIN_QUICK = set("""
c02_tick_decision_06 c02_tick_decision_07
""".split())
NEW_PREFIXES = ("c01_feed_step", "c02_tick_step", "c04_disconnect_step", "c06_close06", "c07_encoder_any", "c16_wellformed", "c16_map",
                "c17_frag_read", "c17_tick_skip_step_wide", "c20_reject", "c20_needs_tick", "c15_ddnet", "c11_scaled", "c13_")
write = "--write" in sys.argv
for f in sorted(glob.glob(os.path.join(V, "plans", "C*.json"))):
    p = json.load(open(f))
    if p.get("dynamic") and not p["harnesses"]:
        continue
    est = []
    for h in p["harnesses"]:
        n = h["name"]
        m = M.get(n)
        if h.get("expect") == "fail" or h.get("pin"):
            pass
        elif n in PIN_HEAVY:
            h["tier"] = "heavy"
        elif n in PIN_THOROUGH:
            h["tier"] = "thorough"
        elif n in PIN_QUICK:
            h["tier"] = "quick"
        elif m and m.get("cbmc_s") is not None:
            h["tier"] = "quick" if (m["cbmc_s"] <= QUICK_CBMC_S and (m["rss_mb"] or 0) <= QUICK_RSS_MB) else "thorough"
        elif m:
            h["tier"] = "thorough"  # did not finish when measured
        elif "--unmeasured-thorough" in sys.argv and n.startswith(NEW_PREFIXES):
            h["tier"] = "thorough"  # not measured yet: not on the every-change path
        if m and m.get("rss_mb"):
            h["mem_gb"] = max(2, math.ceil(m["rss_mb"] * 1.6 / 1024) + 1)
            if m.get("cbmc_s") is None:
                h["mem_gb"] = max(h["mem_gb"], 30)
        h["timeout_s"] = 700 if h["tier"] == "quick" else 2400
        if h["tier"] == "heavy":
            h["mem_gb"] = max(h.get("mem_gb", 4), 30)
        if h["tier"] == "quick":
            est.append(((m or {}).get("cbmc_s") or 60, h.get("mem_gb", 4), n))
    # crude schedule: 16 jobs, 44 GB, +12 s compile per harness, + 60 s build
    est.sort(reverse=True)
    t = 0.0
    running = []  # (end, mem)
    pending = sorted(est, key=lambda e: -e[1])
    now = 0.0
    while pending or running:
        started = True
        while started and pending:
            started = False
            for e in list(pending):
                if len(running) < 16 and sum(r[1] for r in running) + e[1] <= 44:
                    running.append((now + e[0] + 12, e[1]))
                    pending.remove(e)
                    started = True
        running.sort()
        now = running[0][0]
        running.pop(0)
    nq = len(est)
    nt = sum(1 for h in p["harnesses"] if h["tier"] == "thorough")
    unknown = [h["name"] for h in p["harnesses"] if h["name"] not in M]
    print("%s quick=%d thorough=%d est_quick_wall=%ds (+build ~60s) unmeasured=%d %s" % (p["property"] + ("/" + os.path.basename(f)[:-5] if os.path.basename(f)[:-5] != p["property"] else ""), nq, nt, now, len(unknown), unknown[:4]))
    if write:
        json.dump(p, open(f, "w"), indent=1)
