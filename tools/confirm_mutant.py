#!/usr/bin/env python3
"""confirm_mutant.py <src_dir> <crate_dir> <test_name> <seed_id> <property> <needs...>
Confirms a seeded change in a scratch worktree of /repo (never /repo itself):
 1. demo passes on the unchanged tree, 2. with the patch the whole existing suite still passes,
 3. with the patch the demo fails.  Stores it as /verif/seeded/<seed_id>/ on success."""
import json, os, shutil, subprocess, sys
src, crate, tname, sid, prop = sys.argv[1:6]
needs = " ".join(sys.argv[6:])
W = "/tmp/mutv/w"
env = dict(os.environ, CARGO_NET_OFFLINE="true", CARGO_BUILD_JOBS="8")
def sh(cmd, **kw):
    return subprocess.run(cmd, shell=True, cwd=W, env=env, stdout=subprocess.PIPE, stderr=subprocess.STDOUT, text=True, **kw)
if not os.path.isdir(W):
    os.makedirs("/tmp/mutv", exist_ok=True)
    subprocess.check_call(["git", "-C", "/repo", "worktree", "add", "--detach", W, "HEAD"])
sh("git checkout -- . && git clean -fdq -e target")
head = sh("git rev-parse HEAD").stdout.strip()
repo_head = subprocess.run(["git", "-C", "/repo", "rev-parse", "HEAD"], stdout=subprocess.PIPE, text=True).stdout.strip()
if head != repo_head:
    sh("git checkout --detach " + repo_head)
pkg = subprocess.run("grep -m1 '^name' %s/%s/Cargo.toml | cut -d'\"' -f2" % (W, crate), shell=True, stdout=subprocess.PIPE, text=True).stdout.strip()
os.makedirs(os.path.join(W, crate, "tests"), exist_ok=True)
shutil.copy(os.path.join(src, "demo.rs"), os.path.join(W, crate, "tests", tname + ".rs"))
democmd = "cargo test --offline -p %s --test %s" % (pkg, tname)
r1 = sh(democmd)
ok1 = r1.returncode == 0
os.remove(os.path.join(W, crate, "tests", tname + ".rs"))
a = sh("git apply %s/patch.diff" % src)
if a.returncode != 0:
    print("patch does not apply", a.stdout); sys.exit(2)
r2 = sh("cargo test --workspace --no-fail-fast --offline")
ok2 = r2.returncode == 0
npass = sum(int(l.split("ok.")[1].split("passed")[0]) for l in r2.stdout.splitlines() if l.startswith("test result: ok."))
shutil.copy(os.path.join(src, "demo.rs"), os.path.join(W, crate, "tests", tname + ".rs"))
r3 = sh(democmd)
ok3 = r3.returncode != 0 and "test result: FAILED" in r3.stdout or ("panicked" in r3.stdout and r3.returncode != 0)
sh("git checkout -- . && git clean -fdq -e target")
print("demo on original passes:", ok1, "| suite with patch passes:", ok2, "(%d passed)" % npass, "| demo with patch fails:", bool(ok3))
if not (ok1 and ok2 and ok3):
    open("/tmp/mutv/%s.log" % sid, "w").write(r1.stdout + "\n=====\n" + r2.stdout[-5000:] + "\n=====\n" + r3.stdout[-5000:])
    print("NOT CONFIRMED; log /tmp/mutv/%s.log" % sid); sys.exit(1)
d = "/verif/seeded/" + sid
os.makedirs(d, exist_ok=True)
shutil.copy(os.path.join(src, "patch.diff"), d)
shutil.copy(os.path.join(src, "demo.rs"), d)
if os.path.exists(os.path.join(src, "README.md")):
    shutil.copy(os.path.join(src, "README.md"), d)
fail_line = [l for l in r3.stdout.splitlines() if "panicked" in l or "test result" in l][:3]
json.dump({
    "id": sid, "breaks_property": prop, "run_checks": [prop],
    "needs_to_manifest": needs,
    "demo": "copy demo.rs to %s/tests/%s.rs in a worktree of /repo and run `%s`" % (crate, tname, democmd),
    "confirmed": {"by": "main session (tools/confirm_mutant.py) in scratch worktree /tmp/mutv/w of /repo HEAD " + repo_head[:7],
                  "demo_on_original": "passes", "existing_tests_with_patch": "cargo test --workspace --no-fail-fast --offline: all pass (%d)" % npass,
                  "demo_with_patch": "fails: " + " | ".join(fail_line)},
    "source": "independent sub-agent given only the property text and its own worktree",
}, open(os.path.join(d, "meta.json"), "w"), indent=1)
print("stored", d)
