#!/usr/bin/env python3
import json, sys, os, glob
sys.path.insert(0, "/opt/veriftools/pyvenv/lib/python3.11/site-packages")
try:
    import jsonschema
except ImportError:
    import subprocess
    sys.exit(subprocess.call(["python3-vt", __file__] + sys.argv[1:]))
V = os.path.dirname(os.path.dirname(os.path.abspath(__file__)))
ok = True
def val(path, schema):
    global ok
    try:
        jsonschema.validate(json.load(open(path)), json.load(open(schema)))
        print("ok  ", path)
    except Exception as e:
        ok = False
        print("FAIL", path, str(e)[:400])
val(os.path.join(V, "MANIFEST.json"), "/root/.vp/MANIFEST.schema.json")
for e in sorted(glob.glob(os.path.join(V, "evidence", "*.json"))):
    val(e, "/root/.vp/EVIDENCE.schema.json")
sys.exit(0 if ok else 1)
