#!/usr/bin/env python3
"""one-off (session 3): registers the harnesses added in this session in the plans"""
import json, os
V = os.path.dirname(os.path.dirname(os.path.abspath(__file__)))
def load(pid): return json.load(open(os.path.join(V, "plans", pid + ".json")))
def save(pid, p): json.dump(p, open(os.path.join(V, "plans", pid + ".json"), "w"), indent=1)
def add(p, entries):
    have = {h["name"] for h in p["harnesses"]}
    for e in entries:
        if e["name"] in have:
            p["harnesses"] = [e if h["name"] == e["name"] else h for h in p["harnesses"]]
        else:
            p["harnesses"].append(e)

names = {0: 'unconnected', 1: 'connecting', 2: 'pending', 3: 'online', 4: 'disconnected', 5: 'tokenwait', 6: 'pendingconnect'}
kinds = {0: 'keepalive', 1: 'close', 2: 'chunks', 3: 'connect', 4: 'k4', 5: 'k5'}
def has_token(v, s): return s in ((2, 3) if v == "06" else (1, 2, 3, 5, 6))
def edge(v, b, k):
    if k == 1 and b != 4: return True
    if v == "06": return (b, k) in ((0, 3), (1, 4), (2, 2))
    return (b, k) in ((0, 4), (5, 4), (6, 3), (1, 5), (2, 2))
FS_FUN = ["Connection::{feed,feed_impl,tick_action,send_control,resend}", "State::{token,own_token,their_token}", "ReceivePacket::{connected,ready,disconnect}", "OnlineState::new", "PacketBuilder::send", "Packet::write"]
def feed_step(v, s, k, tier):
    opt = []
    if not has_token(v, s): opt.append("inert: token mismatch")
    if not edge(v, s, k): opt.append("state changed")
    return {"name": "c01_feed_step_%s_%s_%s" % (names[s], kinds[k], v), "package": "libtw2-net", "tier": tier, "mem_gb": 16 if s == 3 else 4,
            "mount": "net_connection.rs" if v == "06" else "net_connection7.rs", "functions": FS_FUN,
            "bounds": "one feed() from state '%s' with a datagram that parses (parser stand-in) to packet kind %s (0.6: k4=ConnectAccept k5=Accept; 0.7: k4=Token k5=Accept) with symbolic token, ack, flags, 3 payload bytes; symbolic clock, tokens, ack/sequence" % (names[s], kinds[k]),
            "optional_covers": opt, "timeout_s": 900}

# which (state, kind) pairs run on every change
Q01 = {"06": [(1, 4), (2, 2), (0, 3)], "07": [(1, 5), (2, 2), (0, 4), (5, 4), (6, 3)]}
Q03 = {"06": [(2, 1), (2, 4), (2, 0)], "07": [(6, 1), (6, 4), (6, 5), (5, 1), (1, 1), (2, 1)]}
c01, c03 = load("C01"), load("C03")
e01, e03 = [], []
for v in ("06", "07"):
    states = range(5) if v == "06" else range(7)
    for s in states:
        for k in range(6):
            in01q = (s, k) in Q01[v]
            in03q = (s, k) in Q03[v]
            if has_token(v, s) and (in03q or not in01q):
                e03.append(feed_step(v, s, k, "quick" if in03q else "thorough"))
            else:
                e01.append(feed_step(v, s, k, "quick" if in01q else "thorough"))
add(c01, e01)
add(c03, e03)
c01["bounds_text"] += "; feed-level steps (c01_feed_step_<state>_<kind>_<version>): one Connection::feed from every state x every parsed packet kind with a parser stand-in per kind (symbolic token/ack/flags), codec oracle and an ack-recording stand-in: Ready only on Connecting->Online by the peer's answer (hence at most once, never before the acceptor answered), Disconnect only on Close, every state change a documented handshake edge, send timer kept armed"
c03["bounds_text"] += "; half-connected states (c01_feed_step_<state>_<kind>_<version> for the states that have fixed a token: 0.6 Pending/Online, 0.7 Token/PendingConnect/Connecting/Pending/Online): a datagram not carrying exactly the agreed token - except the 0.7 token request with the reserved token while PendingConnect - yields no event, no datagram, no ack processing, unchanged state summary"
for p in (c01, c03):
    p["outside_bound"] = [o for o in p.get("outside_bound", []) if "handshake" not in o.lower() and "half-connected" not in o.lower()]
save("C01", c01); save("C03", c03)

c02 = load("C02")
TF = ["Connection::{tick,tick_action,resend,needs_tick,flush}", "Timeout::{has_triggered_level,has_triggered_edge,set}", "OnlineState::{flush,can_send}"]
e = []
for v in ("06", "07"):
    m = "net_connection.rs" if v == "06" else "net_connection7.rs"
    e.append({"name": "c02_tick_step_online_" + v, "package": "libtw2-net", "tier": "quick", "mem_gb": 16, "mount": m, "functions": TF, "timeout_s": 900,
              "bounds": "one tick() from an Online state with one unacknowledged 1-byte chunk; clock, send deadline and retransmit deadline symbolic over (almost) all u64: send timer stays armed, chunk keeps a deadline, due actions happen (retransmission re-queued and sent now or at the pending send deadline; keep-alive/flush exactly one datagram)"})
    for st in ("connecting", "pending"):
        e.append({"name": "c02_tick_step_%s_%s" % (st, v), "package": "libtw2-net", "tier": "quick", "mem_gb": 4, "mount": m, "functions": TF, "timeout_s": 900,
                  "bounds": "one tick() from handshake state '%s', symbolic clock and send deadline: the handshake message is repeated exactly when due and the timer re-armed 500 ms ahead; the reported deadline is finite" % st})
e.append({"name": "c02_tick_step_tokenwait_07", "package": "libtw2-net", "tier": "thorough", "mem_gb": 8, "mount": "net_connection7.rs", "functions": TF, "timeout_s": 2400,
          "unwindset_fn": {"BufferRef::<'_, '_>::extend": 530},
          "bounds": "as c02_tick_step_connecting for the 0.7 connector waiting for the token (the token request is padded to 519 bytes: per-loop unwind 530)"})
add(c02, e)
c02["bounds_text"] += "; tick steps (c02_tick_step_*): one tick() per state kind from symbolic clock/deadlines, incl. both deadlines due on the same tick"
save("C02", c02)

c04 = load("C04")
e = []
for v in ("06", "07"):
    m = "net_connection.rs" if v == "06" else "net_connection7.rs"
    sts = ["unconnected", "connecting", "pending", "online"] + (["tokenwait", "pendingconnect"] if v == "07" else [])
    for st in sts:
        e.append({"name": "c04_disconnect_step_%s_%s" % (st, v), "package": "libtw2-net", "tier": "quick" if st in ("unconnected", "pending") else "thorough", "mem_gb": 16 if st == "online" else 4, "mount": m, "timeout_s": 900,
                  "functions": ["Connection::{disconnect,send_control,needs_tick}", "PacketBuilder::send", "Packet::write"],
                  "bounds": "disconnect(reason) with a symbolic NUL-free 2-byte reason from state '%s' (Net::reject calls it on a still unconnected connection): no panic, exactly one datagram <= 1400 bytes, Disconnected afterwards, no deadline" % st})
add(c04, e)
c04["bounds_text"] += "; disconnect() from every state that permits it (c04_disconnect_step_*)"
save("C04", c04)

c06 = load("C06")
add(c06, [{"name": "c06_close06_reason_boundary_%d" % n, "package": "libtw2-net", "tier": "quick", "mem_gb": 8, "timeout_s": 900,
           "functions": ["Packet::read_panic_on_decompression", "ConnectedPacket::write", "ControlPacket::write"],
           "bounds": "0.6 Close control datagram with a reason field of %d symbolic bytes (terminator anywhere or nowhere), no token: accepted reason <= 127 bytes, NUL-free, inside the input; written again and read back equal" % n} for n in (130, 127)])
c06["bounds_text"] += "; Close reason fields of 127 and 130 symbolic bytes (the protocol's 127-byte limit)"
save("C06", c06)

c07 = load("C07")
add(c07, [{"name": "c07_encoder_any_code_lengths", "package": "libtw2-huffman", "tier": "quick", "mem_gb": 6, "timeout_s": 900,
           "functions": ["Huffman::compress_impl_unsafe", "Huffman::compressed_len", "SymbolRepr::to_node", "Node::to_symbol_repr"],
           "bounds": "the encoder on a table whose symbols 0 and 1 have symbolic code words (any bits, any length 1..=24 - what from_frequencies can produce), input [0,1]: output == concatenation of the code words, predicted length exact"}])
c07["bounds_text"] += "; encoder with symbolic code words of every length 1..24 (tables other than the built-in one)"
c07["outside_bound"] = [o for o in c07.get("outside_bound", [])] + ["from_frequencies itself (tree construction); the decoder on tables other than the built-in one"]
save("C07", c07)

c16 = load("C16")
add(c16, [{"name": "c16_wellformed_accepted_" + v, "package": "libtw2-datafile", "tier": "quick", "mem_gb": 6, "timeout_s": 900,
           "functions": ["raw::Reader::{check,item,item_type_indices,data_size_file,num_items,num_data}"],
           "bounds": "a well-formed version %s layout per doc/datafile.md (1 type, 2 items of 0 and 1 words, 2 data blocks of symbolic stored sizes 0..2^20 incl. empty and empty-last), symbolic ids/words: accepted, and the accessors return exactly what was stored" % v[1]} for v in ("v3", "v4")] +
         [{"name": "c16_map_get_index_in_range", "package": "libtw2-map", "tier": "quick", "mem_gb": 4, "timeout_s": 900, "exhaustive": True,
           "functions": ["map::reader::{get_index_impl,get_index,get_index_opt}"],
           "bounds": "every i32 index against every range start <= end <= 2^24: a returned index lies inside the range it was checked against (the datafile accessors index tables with it)"},
          {"name": "c16_map_image_from_raw_total", "package": "libtw2-map", "tier": "quick", "mem_gb": 4, "timeout_s": 900,
           "functions": ["map::reader::Image::from_raw", "format::MapItemImageV1::{from_slice,mandatory}"],
           "bounds": "image item of 0..7 symbolic words against a symbolic data-block range: value or error, returned block indices inside the range"}])
c16["bounds_text"] += "; well-formed v3/v4 layouts are accepted and returned as stored; map layer: index validation (complete domain) and Image::from_raw"
c16["outside_bound"] = [o for o in c16.get("outside_bound", []) if "map layer" not in o.lower()] + ["map layer beyond index validation and Image::from_raw (groups, layers, tile arrays via ndarray, settings)"]
save("C16", c16)

c17 = load("C17")
T = "libtw2-teehistorian"
def h17(n, fn, b, tier="quick", mem=4, opt=None):
    e = {"name": n, "package": T, "tier": tier, "mem_gb": mem, "timeout_s": 900, "functions": fn, "bounds": b}
    if opt: e["optional_covers"] = opt
    return e
e = []
for n, d in [("spare_0_0", "capacity 8, empty"), ("spare_2_0", "capacity 8, 2 buffered"), ("spare_2_1", "capacity 8, 2 buffered 1 consumed"), ("spare_3_3", "capacity 8, 3 buffered all consumed"),
             ("compact_1", "full 4/4, 1 consumed"), ("compact_2", "full 4/4, 2 consumed"), ("compact_4", "full 4/4, all consumed"), ("grow", "full 4/4, nothing consumed: reserve(8192)")]:
    e.append(h17("c17_read_more_contract_" + n, ["Buffer::read_more", "CallbackExt::{read_buffer,read_buffer_ref}", "libtw2_buffer::with_buffer"],
                 "the real (recursive) Buffer::read_more from the pre-state '%s' with a callback delivering k <= 4 symbolic bytes or end of stream: unconsumed bytes preserved, delivered bytes appended behind them, exactly one callback call, Err(UnexpectedEnd) iff end of stream" % d))
for k in ["player_diff", "player_new", "tick_skip", "join", "drop", "message", "input_new", "console_command"]:
    e.append(h17("c17_decode_prefix_" + k, ["format::item::Kind::decode_rest", k.title().replace("_", "") + "::decode", "Unpacker::{read_int,read_data,read_string}"],
                 "Lemma A (prefix monotonicity) for record kind %s: every record of 5..12 symbolic bytes, every prefix length: the decoder asks for more or returns exactly what it returns on the whole record" % k))
e.append(h17("c17_frag_kind_bytewise", ["Buffer::read_kind", "format::item::Kind::decode"], "record kind of every 4-byte stream delivered one byte per read result vs completely buffered; read_more replaced by its contract model"))
e.append(h17("c17_frag_kind_two_piece", ["Buffer::read_kind", "format::item::Kind::decode"], "record kind of every 3-byte stream under every two-piece split"))
for k in ["player_diff", "player_new", "tick_skip", "join", "drop", "message"]:
    e.append(h17("c17_frag_item_%s_bytewise" % k, ["Buffer::read_item", "format::item::Kind::decode_rest"], "record body (%s) of every 4-byte stream delivered byte by byte vs completely buffered: same item fields, payload bytes, consumed count, or same error class" % k,
                 opt=["ok && refills >= 2"] if k in () else None))
    e.append(h17("c17_frag_item_%s_two_piece" % k, ["Buffer::read_item", "format::item::Kind::decode_rest"], "record body (%s) of every 3-byte stream under every two-piece split" % k))
e.append(h17("c17_frag_read_player_diff_bytewise", ["Reader::read", "Buffer::{read_kind,read_item}"], "the whole Reader::read step on a PLAYER_DIFF record of a known player (symbolic tick, position, record bytes), buffered vs byte by byte: same item and same reader state", mem=8))
e.append(h17("c17_tick_skip_step_wide", ["Reader::read", "TickSkip::decode"], "TICK_SKIP with any dt the varint format can express (5 symbolic bytes), symbolic tick/state: tick += dt+1 exactly, overflow/negative dt are errors", tier="thorough", mem=24))
add(c17, e)
c17["harnesses"] = [h for h in c17["harnesses"] if h["name"] != "c17_frag_record_kind"]
c17["bounds_text"] += ("; FRAGMENTATION INDEPENDENCE, decided compositionally: (1) c17_read_more_contract_*: the real recursive refill from 8 buffer shapes (spare capacity / compaction / growth) "
    "preserves the unconsumed bytes and appends what the callback delivers; (2) c17_decode_prefix_*: every record decoder is prefix-monotone (on a prefix it asks for more or returns what it returns on the whole record) "
    "for records of 5..12 symbolic bytes; (3) c17_frag_*: the real retry loops of read_kind/read_item (and one whole Reader::read) with read_more replaced by exactly the contract of (1), byte-by-byte delivery and every two-piece split of 3/4-byte streams with symbolic content, compared with the completely buffered run")
c17["outside_bound"] = ["extension (EX) records in the prefix-monotonicity lemma (16-byte uuid compare: > 8 GB); cut schedules other than byte-by-byte and two-piece are covered by the composition argument (1)+(2), not by a direct run; records > 12 bytes; the 8192-byte compaction with a full buffer of real size",
                        "JSON header (serde_json/chrono)", "multi-read sequences other than through the single-read steps"]
c17["stubs"] = c17.get("stubs", []) + ["Buffer::read_more -> Buffer::verif_read_more_model in c17_frag_* (contract model justified by c17_read_more_contract_* on the real function)"]
save("C17", c17)

c20 = load("C20")
add(c20, [{"name": "c20_reject_removes_only_that_peer", "package": "libtw2-net", "tier": "quick", "mem_gb": 16, "timeout_s": 900, "functions": ["Net::reject", "Peers::remove_peer"],
           "bounds": "reject of a pending (unconnected) peer with a recording stand-in for Connection::disconnect and a callback that may refuse the datagram: exactly that connection, its address, gone afterwards, the other peer untouched"},
          {"name": "c20_needs_tick_is_earliest_peer_deadline", "package": "libtw2-net", "tier": "quick", "mem_gb": 16, "timeout_s": 900, "functions": ["Net::needs_tick", "Connection::needs_tick", "Timeout::cmp"],
           "bounds": "two peers (established + pending, or both established) with symbolic deadlines: the endpoint reports the earliest peer deadline; a peer without deadline does not hide another's"}])
c20["bounds_text"] += "; reject; send errors during disconnect/reject; needs_tick = earliest peer deadline"
save("C20", c20)

c15 = load("C15")
add(c15, [{"name": n, "package": "libtw2-demo", "tier": "thorough", "mem_gb": 12, "timeout_s": 2400, "functions": ["ddnet::DemoWriter::write_snap", "Writer::write_tick", "TickMarker::new", "ChunkHeader::write"], "bounds": b}
          for n, b in [("c15_ddnet_tick_refusal", "typed writer, empty object sets, t1 >= 0 then any t2 <= t1: refused with TooLowTickNumber, not a panic (chunk body path replaced by a stand-in)"),
                       ("c15_ddnet_first_tick_negative", "typed writer: a negative first tick is refused"),
                       ("c15_ddnet_increasing_ticks_accepted", "typed writer: strictly increasing ticks accepted on both sides of the 250-tick key-frame interval")]])
save("C15", c15)
print("ok")
